#!/venv/bin/python
"""Regenerates MANIFEST.json from the table below (kept as code so that the
per-check text lives in one place). Run: /venv/bin/python tools_manifest.py"""
import json, os

HERE = os.path.dirname(os.path.abspath(__file__))
PY = "/venv/bin/python"

NA = {
 "C01": "pure function of one input text (loads, dumps, loads): no state, schedule, seam or fault in the statement; deterministic simulation has nothing to decide",
 "C02": "pure function of one input text compared with a documented mapping: no history, schedule, environment or fault dimension",
 "C04": "idempotence of formatting one text is a pure function of its input; the 'same dict, same text' sentence is exercised incidentally by C12's cross-history / cross-thread comparison but that does not decide C04",
 "C05": "a relation between loads() of two renderings of one document: pure; CR/LF and comments are input bytes, not faults",
 "C06": "loads(dumps(d, **options)) over options x inputs: pure; 'configurations' here are call arguments",
 "C07": "validate(d) versus the schema's verdict: pure; its 'fault injection' means schema faults written into the input dictionary",
 "C08": "positions recorded for one text and echoed in messages: pure function of the input",
 "C10": "expression normalisation of one text: pure function of the input",
 "C11": "robustness of loads() on one arbitrary string plus a time-proportionality clause: pure, and simulation does not decide performance; recasting token mutations as 'storage faults' would only rename an input mutator",
 "C13": "loads() of one text under four flag combinations: pure",
 "C14": "comment preservation for one text: pure",
 "C16": "layout of dumps(d, **options): pure",
 "C19": "consistency of four static vocabulary tables over a finite product 'enumerated exhaustively': exhaustive enumeration of a configuration space, no run-time behaviour to simulate",
}

CHECKS = {}

def check(pid, level_text, note, technique, design_ref):
    CHECKS[pid] = {
        "property_id": pid,
        "quick_cmd": f"{PY} checks/{pid.lower()}.py --tier quick",
        "thorough_cmd": f"{PY} checks/{pid.lower()}.py --tier thorough",
        "evidence_file": f"/verif/evidence/{pid}.json",
        "replay_cmd_template": f"{PY} checks/{pid.lower()}.py --replay {{path}}",
        "engine": "dsim",
        "level_claimed": {"category": "exploration", "text": level_text, "design_ref": design_ref},
        "level_note": note,
        "technique": technique,
    }

check("C17",
 "Seeded search over operation histories (tens of thousands of short histories per quick run, millions in thorough) on live CaseInsensitiveOrderedDict objects, refined step by step against a built-in-dict reference model, with fault steps (operations that must raise, a default factory failing during one chosen operation, pickle restart in a fresh interpreter under another hash seed). Sampling evidence over histories, not proof; the schedule and clock dimensions are degenerate for this property and the evidence says so.",
 "Trusts the 60-line reference model (insertion-ordered dict keyed by key.lower(), [] for the ten object-list keys, factory() otherwise) and CPython's dict/copy/pickle. Non-string keys, popitem/move_to_end and self-containing dicts are outside the statement and not generated.",
 "deterministic simulation: seeded operation/fault histories vs executable reference model (refinement), minimised replay files",
 "DESIGN.md 4.5")

check("C18",
 "Seeded search over histories: a living d1 (plain or Mapfile dict) receives successive type-compatible patches through mappyfile.update and its object lists are queried with find/findall/findunique/findkey; every step is compared with a reference implementation written from the statement (result, d1 state, identity of untouched values, purity of the patch - including every earlier patch of the history - and of the searched items). Sampling evidence over histories; no schedule, clock or I/O exists for this property.",
 "Trusts the ~60-line reference implementation and the generator's notion of 'type-compatible patch' (the statement is silent on dict-over-scalar conflicts, empty lists in a patch and deleting absent keys: not generated, and skipped by a precondition during shrinking).",
 "deterministic simulation: seeded operation histories vs executable reference implementation (refinement), minimised replay files",
 "DESIGN.md 4.6")

check("C12",
 "Seeded search over (a) histories on reused Parser/MapfileToDict/PrettyPrinter/Validator objects, each operation compared with brand-new objects in a pristine forked process, with and without I/O faults injected at the k-th schema/grammar/mapfile open or read and bounded recovery asserted one step after the last fault; (b) real threads on the module-level API under a deterministic scheduler that pre-empts at source-line granularity (random walk / PCT / starvation / fine_start / entry_sync call-boundary barrier), optionally with I/O faults armed during the threaded pass, each call compared with the same call run alone in a pristine process; (c) argument purity around every call. A few hundred runs per quick invocation, ~10^5 in thorough; sampling evidence over histories x schedules x fault placements.",
 "Trusts sys.monitoring LINE events as the complete set of pre-emption points that matter under the GIL, the in-memory file system's fidelity to the real one for open/read/write/close of regular files, and freeze() as the notion of 'same result'. Thread safety of one worker object shared between threads is not promised and not exercised.",
 "deterministic simulation: seeded thread schedules (baton-passing real threads, sys.monitoring pre-emption), crash-point I/O fault injection, reused-vs-pristine relational oracle, minimised schedule+fault replay files",
 "DESIGN.md 4.1")

check("C15",
 "Seeded search over simulated worlds: include trees of files (fan-out <= 4, depth 0-7, nested directories, relative/absolute, quoted/unquoted, comments, LF/CRLF), cycles, missing files, directories in place of files, one-shot EIO/EACCES injected at the k-th include open or read, repairs between calls, decoy files under the working directory, loaded through open / load / loads / a reused Parser with the simulated working directory unrelated to the tree and changing between calls. Oracle: a 20-line flatten() model written from the statement - result equals loads(substituted text), error kind, open sequence equal to the model's by first occurrence of each path (fail-stop, depth-first, root-relative, never more opens than the model, a per-call memo of include files is tolerated), nothing written, every handle closed, directives kept as data and printed back under expand_includes=False. ~2000 worlds per quick run; sampling evidence over trees x fault placements x call histories.",
 "Trusts the flatten() model, and the in-memory file system / os.getcwd / os.stat seam (its fidelity is re-checked against a real tmpfs directory in pristine forks for 3-10% of fault-free worlds). The exception class for too-deep/cyclic inclusion is not pinned; any prefix of the model's open sequence is accepted there.",
 "deterministic simulation: simulated file tree + working directory with crash-point I/O fault injection, seeded world/history search, reference model (textual substitution), minimised replay files",
 "DESIGN.md 4.3")

check("C09",
 "Seeded search over call histories on one long-lived Validator (plus module-level validate/create in the same process): every run first walks its slice of the finite alphabet - each of the 106 annotated schema entries x every parent chain from every root type x versions just below / at / just above each bound and no version - then a random history over versions 4.0-8.4 biased to revisit an entry at another version, 30% with schema-read faults placed at the k-th open/read (inside lazy $ref loading during in-place pruning). After every operation the verdict is compared with an immutable reference model (raw schemas filtered at every depth, jsonschema + Registry), with a fresh Validator, and exported schemas are walked for excluded entries and compared with a fresh export; version-less results must be unchanged. A quick batch covers the whole alphabet several times; the history x fault dimension is sampled.",
 "Trusts the reference model (sim/c09model.py, ~250 lines, agrees with the code on all 635 alphabet documents x boundary versions after the fix: commit) and value synthesis that keeps every keyword value schema-valid. Message wording and error order are not compared.",
 "deterministic simulation: seeded call/version histories with schema-read fault injection on a long-lived cache-holding object, refinement against an immutable reference model, minimised replay files",
 "DESIGN.md 4.2")

check("C20",
 "Seeded search over short histories in a private tmpfs directory: generated documents with BMP/astral/combining/bidi/control characters (CR, CRLF, NEL, U+2028...) written as UTF-8 and read back through open / load (text-mode, newline='', StringIO) / loads; save / dump / dumps compared byte for byte; string values placed through the dict API (ground truth known, random code points of every plane) must survive save->open/load unchanged; `mappyfile format` (every option, also IN == OUT, with an INCLUDE) against save(open(IN)); `mappyfile validate` over sets of 1-8 files mixing valid, invalid with n messages (n concentrated at 1, 2, 254-258, 300, 511-513), version-dependent, unparseable, undecodable, empty, directory, missing, wildcard - message-line count and exit status against the API; `mappyfile schema` against the API's JSON. The CLI runs in-process through click; the exit-status model (n & 0xFF) is calibrated against real subprocesses in every batch. A few hundred runs per quick invocation; sampling evidence.",
 "Trusts the exit-status model as far as the calibration subprocesses confirm it, and tmpfs as the file system. Message text is not compared. Strings containing the output quote character or ending in a backslash are not generated.",
 "deterministic simulation: seeded operation histories over a private file tree with faulty files (undecodable / unparseable / missing / directory) as the fault kinds, relational oracles file vs stream vs string vs CLI, subprocess-calibrated process-exit model, minimised replay files",
 "DESIGN.md 4.4")

check("C03",
 "Seeded search over edit histories on a living Mapfile dictionary (real CaseInsensitiveOrderedDict objects edited through the dict API, mappyfile.update, loads() of harness-rendered snippets, shared child objects, hidden keys, reads of missing keys and repairs) shadowed by a model in which every value carries the lexical class MapServer requires; after edits dumps / dump to a recording stream / save onto a simulated file holding older content, under 9 option sets, 15% of histories with an I/O fault at the k-th schema read. Oracle: an independent reader of the printed text (no lark, no repo code) yields exactly the model's token sequence, or the call refuses and leaves zero bytes behind. Decides the history, stream and fault clauses by sampling; the per-(type, keyword, shape) lexical-class clause is only sampled through the workload (261 keyword alternatives of 19 object types).",
 "Trusts the independent reader (sim/c03model.py read()), the rule that a value generated from schema alternative X must be printed in X's lexical class, and the exclusions listed in the evidence assumptions (ambiguous shapes are not generated). Expression spacing is compared modulo white space.",
 "deterministic simulation: seeded edit/print histories with schema-read fault injection and recording streams, shadow model + independent reader as oracle, minimised replay files",
 "DESIGN.md 4.7")

def main():
    order = ["C03", "C09", "C12", "C15", "C17", "C18", "C20"]
    claimed = [CHECKS[p] for p in order if p in CHECKS]
    na = [{"property_id": p, "reason": r} for p, r in sorted(NA.items())]
    for p in order:
        if p not in CHECKS:
            na.append({"property_id": p, "reason": "claimed in DESIGN.md; check not yet registered (work in progress)"})
    na.sort(key=lambda e: e["property_id"])
    m = {
        "version": 1,
        "setup_cmd": f"{PY} sim/setup_check.py",
        "hooks": {
            "guard": "MAPPYFILE_VERIF",
            "enable": "no source hooks exist: every seam (mappyfile.parser.open, builtins.open, io.open, os.getcwd, threading primitives, sys.monitoring line events) is patched from outside by the checks at run time; the guard name is reserved and unused",
            "baseline_off_cmd": "cd /repo && /venv/bin/python -m pytest -ra -q -p no:cacheprovider --timeout=900 --continue-on-collection-errors",
            "source_commits": [],
            "add_only": True,
        },
        "engines": [
            {"name": "dsim", "path": "/verif/sim", "serves_properties": [c["property_id"] for c in claimed],
             "kind_free_text": "purpose-built deterministic simulator in Python: seeded batch runner (one integer decides a run), sys.monitoring-based baton-passing thread scheduler, in-memory file system / cwd / stream seams with a crash-point fault plan, dict-API history machine with reference models, delta-debugging minimiser and fresh-process replay"},
        ],
        "checks": claimed,
        "notes": "Technique family: deterministic simulation with fault injection. Exit codes: 0 held, 1 VIOLATION (replay file printed), 2 harness error. Known findings: /verif/known_findings.json. See DESIGN.md.",
        "not_applicable": na,
    }
    with open(os.path.join(HERE, "MANIFEST.json"), "w") as f:
        json.dump(m, f, indent=1)
    print("wrote MANIFEST.json with", len(claimed), "checks,", len(na), "not applicable")

if __name__ == "__main__":
    main()
