#!/venv/bin/python
"""C15 - INCLUDE expansion equals textual substitution, bounded at 5 levels.

World: a generated document is cut, at whole-line boundaries, into a tree of
files living in the simulated file system (sim/simfs.py) - fan-out <= 4, depth
0..7, nested directories, relative / absolute names, quoted / unquoted, trailing
comments, LF / CRLF - plus cycles, missing files, directories in place of
files and injected open/read errors at the k-th include. The simulated working
directory is unrelated to the root file's directory and changes between calls
on a reused Parser.

Reference model (no repo code): flatten() - recursive replacement of each
INCLUDE line by the referenced file's text, names resolved against the ROOT
file's directory, with the documented bound of five levels; it also yields the
exact sequence of files that must be opened, up to the first error.

Oracle: result == loads(flattened text); error kind; open sequence identical
to the model's (fail-stop, depth-first document order, never the working
directory when a file name is known); nothing opened for writing; every handle
closed; with expand_includes=False nothing but the root is opened and the
directives come back as the `include` list of the object they were written in.
"""
import os
import sys

sys.path.insert(0, os.path.dirname(os.path.dirname(os.path.abspath(__file__))))
from sim import core  # noqa: E402

if __name__ == "__main__":
    core.bootstrap()

import io  # noqa: E402
import json  # noqa: E402
import posixpath  # noqa: E402
import re  # noqa: E402
import shutil  # noqa: E402
import tempfile  # noqa: E402

from sim import simfs, workload  # noqa: E402

INC_RE = re.compile(r"^\s*include\b", re.I)
HOLDERS = {"MAP", "LAYER", "CLASS", "STYLE", "LABEL", "WEB", "LEGEND", "SCALEBAR"}
OPENERS = HOLDERS | {"METADATA", "VALIDATION", "PROJECTION", "POINTS", "PATTERN", "FEATURE", "OUTPUTFORMAT", "SYMBOL", "QUERYMAP",
                     "REFERENCE", "COMPOSITE", "CONNECTIONOPTIONS", "LEADER", "CLUSTER", "GRID", "JOIN", "SCALETOKEN", "VALUES"}
PLURAL = {"LAYER": "layers", "CLASS": "classes", "STYLE": "styles", "LABEL": "labels"}
MAXDEPTH = 5


class TooDeep(Exception):
    pass


# ------------------------------------------------------------------ reference model


def include_name(line):
    """File name written on an INCLUDE line: quotes and a trailing # comment do not matter."""
    body = line.split("#", 1)[0]
    parts = body.split()
    name = parts[1]
    return name.strip("'").strip('"')


def flatten(text, rootdir, read, opens, level=0):
    lines = text.split("\n")
    for i, l in enumerate(lines):
        if INC_RE.match(l):
            if level == MAXDEPTH:
                raise TooDeep()
            name = include_name(l)
            path = name if posixpath.isabs(name) else posixpath.normpath(posixpath.join(rootdir, name))
            opens.append(path)
            lines[i] = flatten(read(path), rootdir, read, opens, level + 1)
    return "\n".join(lines)


def include_lists(text):
    """{object path: [directive values]} for a one-keyword-per-line document."""
    out = {}
    stack = []  # [(TYPE, path tuple, child counters)]
    counters = [{}]
    for l in text.split("\n"):
        s = l.split("#", 1)[0].strip() if not l.strip().startswith(('"', "'")) else l.strip()
        if not s:
            continue
        w = s.split()
        up = w[0].upper()
        if INC_RE.match(l):
            path = tuple(p for _, p in stack)
            out.setdefault(path, []).append(include_name(l))
        elif len(w) == 1 and up in OPENERS:
            n = counters[-1].get(up, 0)
            counters[-1][up] = n + 1
            stack.append((up, (up, n)))
            counters.append({})
        elif len(w) == 1 and up == "END" and stack:
            stack.pop()
            counters.pop()
    return out


def navigate(d, path):
    """path = ((TYPE, n-th sibling of that type), ...) starting at the root block"""
    x = d
    for typ, n in path[1:]:
        if typ in PLURAL:
            x = x.get(PLURAL[typ])[n]
        else:
            x = x.get(typ.lower())
    return x


# ------------------------------------------------------------------ the check


class C15(core.Check):
    pid = "C15"
    level = "exploration"
    quick_runs = 2600
    thorough_runs = 400000
    quick_budget_s = 45.0
    thorough_budget_s = 1500.0
    chunk = 10
    run_timeout_s = 60.0
    isolate = True
    rule = (
        "one evaluation = one seeded world: a schema-generated one-keyword-per-line document cut at line "
        "boundaries into an include tree (fan-out <= 4, depth 0-7 centred on the 5/6 boundary, <= 40 files, "
        "sub-directories, relative/absolute, quoted/unquoted/mixed-case INCLUDE, trailing comments, LF/CRLF), "
        "optionally with a cycle, a missing file, a directory in place of a file or an injected EIO/EACCES at "
        "the k-th include open/read, loaded 1-3 times through open / load(named, relative-named, StringIO) / "
        "loads / a reused Parser with the simulated working directory unrelated to the tree and changing "
        "between calls, and with the tree itself changing between calls (a missing file restored, an include file edited); compared with the flatten() model (result, error kind, exact open sequence). "
        "distinct = digest of (files, steps, faults); non-trivial = the tree has depth >= 2 or a fault/cycle."
    )
    assumptions = [
        "file names with spaces or '#', INCLUDE inside strings/comments, and non-directive lines that begin with "
        "the letters 'include' are outside the quantifier and never generated",
        "the exception class for too-deep / cyclic inclusion is not pinned (any exception but RecursionError, "
        "after exactly the model's opens); a missing/unreadable file must surface as an OSError",
    ]
    real_components = ["Parser.load_includes/_get_include_filename/open_file/load/parse_file", "posixpath", "utf-8 codec and "
                       "universal-newline translation (real io.TextIOWrapper over simulated bytes)", "whole parse/transform path"]
    stubbed_components = ["block layer of the file system and os.getcwd (sim/simfs.py); fidelity re-checked on a real tmpfs "
                          "directory for a fixed fraction of fault-free runs"]

    def setup(self):
        self.mf = core.import_repo()
        simfs.install()
        self.gen = workload.SchemaGen()
        from mappyfile.parser import Parser
        from mappyfile.transformer import MapfileToDict

        self.Parser, self.MapfileToDict = Parser, MapfileToDict
        # built here, in the parent, so that every isolated run inherits them
        self._ref_parsers = {c: Parser(expand_includes=False, include_comments=c) for c in (False, True)}

    def ref_loads(self, flat, flags):
        """Parse include-free text with a harness-owned Parser(expand_includes=False) that never meets an
        INCLUDE line (150 ms saved per run; reuse of such a parser is C12's subject)."""
        c = flags["include_comments"]
        if c not in self._ref_parsers:
            self._ref_parsers[c] = self.Parser(expand_includes=False, include_comments=c)
        tree = self._ref_parsers[c].parse(flat)
        return self.MapfileToDict(include_position=flags["include_position"], include_comments=c).transform(tree)

    # ---------------------------------------------------------------- generate
    def balanced_ranges(self, lines, top_parent=None):
        """(start, end, parent TYPE) of line ranges that are runs of up to 6 whole keyword lines / whole
        blocks inside one parent block."""
        blocks = []
        stack = [(top_parent, [], -1)]
        for i, l in enumerate(lines):
            w = l.split("#", 1)[0].split() if not l.strip().startswith("#") else ["#"]
            if not w:
                continue
            up = w[0].upper()
            if len(w) == 1 and up in OPENERS:
                stack.append((up, [], i))
            elif len(w) == 1 and up == "END" and len(stack) > 1:
                typ, items, start = stack.pop()
                blocks.append((typ, items))
                stack[-1][1].append((start, i))
            else:
                stack[-1][1].append((i, i))
        if len(stack) == 1:
            blocks.append((top_parent, stack[0][1]))
        out = []
        for typ, items in blocks:
            for a in range(len(items)):
                for b in range(a, min(len(items), a + 6)):
                    out.append((items[a][0], items[b][1], typ))
        return out

    def cut(self, r, lines, depth_left, fanout, state, balanced, holders_only, parent=None):
        """Replace up to `fanout` line ranges by INCLUDE lines; returns the new lines."""
        if depth_left <= 0 or len(lines) < 1 or len(state["files"]) >= 38:
            return lines
        if balanced:
            cands = [(a, b, p) for a, b, p in self.balanced_ranges(lines, parent)
                     if (p in HOLDERS if holders_only else True)]
        else:
            cands = []
            for _ in range(12):
                a = r.randrange(len(lines))
                b = min(len(lines) - 1, a + r.randint(0, max(1, len(lines) // 2)))
                cands.append((a, b, None))
        r.shuffle(cands)
        chosen = []
        for a, b, p in cands:
            if len(chosen) >= fanout:
                break
            if all(b < x or a > y for x, y, _ in chosen):
                chosen.append((a, b, p))
        chosen.sort(reverse=True)
        first = True
        for a, b, p in chosen:
            if len(state["files"]) >= 38:
                break
            # the first chosen range continues the deep chain, the others are shallower
            dl = depth_left - 1 if first else r.randint(0, max(0, depth_left - 1))
            first = False
            body = lines[a:b + 1]
            if dl > 0:
                body = self.cut(r, body, dl, r.choice([1, 1, 2, fanout]), state, balanced, holders_only, p)
                if not any(INC_RE.match(x) for x in body):
                    # nothing could be cut out of the body: continue the chain by wrapping all of it
                    for _ in range(dl):
                        name, path = self.new_name(r, state)
                        state["files"][path] = "\n".join(body) + "\n"
                        body = [self.include_line(r, name)]
            name, path = self.new_name(r, state)
            nl = "\r\n" if r.random() < state["p_crlf"] else "\n"
            state["files"][path] = nl.join(body) + (nl if r.random() < 0.7 else "")
            indent = re.match(r"\s*", lines[a]).group(0)
            lines = lines[:a] + [indent + self.include_line(r, name)] + lines[b + 1:]
        return lines

    def new_name(self, r, state):
        n = len(state["files"])
        sub = r.choice(["", "", "inc/", "inc/sub/", "layers/", "../shared/", "слои/", "données/"])
        fn = f"{sub}f{n}.map" if r.random() < 0.9 else f"{sub}карта_{n}.map"
        path = posixpath.normpath(posixpath.join(state["rootdir"], fn))
        if r.random() < state["p_abs"]:
            return path, path
        return fn, path

    def include_line(self, r, name):
        kw = r.choice(["INCLUDE", "INCLUDE", "include", "Include"])
        q = r.choice(['"', '"', "'", ""])
        s = f"{kw} {q}{name}{q}"
        if r.random() < 0.15:
            s = s.replace(" ", "\t", 1)
        c = r.random()
        if c < 0.2:
            s += "  # included part"
        elif c < 0.3:
            s += " #x"
        elif c < 0.36:
            s += "#glued comment"  # a comment may start right after the name
        elif c < 0.4:
            s += "   "
        return s

    def generate(self, seed, tier):
        s = core.Streams(seed)
        k, r, w = s("knobs"), s("ops"), s("workload")
        rootdir = k.choice(["/simfs/proj", "/simfs/proj/maps", "/simfs/a/b/c"])
        state = {"files": {}, "rootdir": rootdir, "p_abs": k.choice([0.0, 0.1, 0.5]), "p_crlf": k.choice([0.0, 0.0, 0.3, 1.0])}
        expand = k.random() < 0.85
        balanced = (not expand) or k.random() < 0.6
        # string values that look like the start / end of a C comment: the directive scan must not be confused by them
        old_str = self.gen.STR
        try:
            if k.random() < 0.35:
                self.gen.STR = ["tiles/*.tif", "*/location", "a /* b", "c */ d", "roads", "x_y", "İstanbul İİ", "straße ﬁ"]
                if expand:
                    # (multi-line values only where directives are expanded: with expand_includes=False a cut could put
                    # a directive INSIDE such a string, which is outside the quantifier)
                    self.gen.STR += ["first line\nsecond line", "one\n\ntwo"]
            doc = self.gen.document(w, "map", comments=k.choice([0.0, 0.2]), nl="\n")
        finally:
            self.gen.STR = old_str
        lines = doc.rstrip("\n").split("\n")
        depth = k.choice([0, 1, 2, 3, 4, 4, 5, 5, 5, 6, 6, 6, 7])
        fanout = k.choice([1, 2, 3, 4])
        lines = self.cut(r, lines, depth, fanout, state, balanced, holders_only=not expand)
        root_nl = "\r\n" if r.random() < state["p_crlf"] else "\n"
        root_text = root_nl.join(lines) + root_nl
        root = posixpath.join(rootdir, "root.map")
        files = dict(state["files"])
        files[root] = root_text
        dirs = []
        faults = []
        special = None
        inc_files = sorted(state["files"])
        if k.random() < 0.15:
            # the same file included twice from one place, spelled identically (two identical STYLEs, say)
            holders = [p_ for p_ in sorted(files) if any(INC_RE.match(l) for l in files[p_].split("\n"))]
            if holders:
                p_ = r.choice(holders)
                nl_ = "\r\n" if "\r\n" in files[p_] else "\n"
                ls_ = files[p_].split(nl_)
                i_ = r.choice([i for i, l in enumerate(ls_) if INC_RE.match(l)])
                ls_.insert(i_ + 1, ls_[i_])
                files[p_] = nl_.join(ls_)
        if k.random() < 0.3 and inc_files:
            # text that merely CONTAINS the letters "include" (never at the start of a line): the usual OWS metadata
            # keys, a name, a trailing comment - in the deepest files as anywhere else
            for p_ in r.sample(inc_files, min(len(inc_files), r.choice([1, 3, len(inc_files), len(inc_files)]))):
                nl_ = "\r\n" if "\r\n" in files[p_] else "\n"
                ls_ = files[p_].split(nl_)
                cand = [i for i, l in enumerate(ls_) if l.strip() and not INC_RE.match(l) and "#" not in l and '"' in l and l.count('"') == 2]
                if cand:
                    i_ = r.choice(cand)
                    ls_[i_] = ls_[i_] + r.choice(["  # see gml_include_items", " # include_test", "  # wms_include_items"])
                    files[p_] = nl_.join(ls_)
        if expand and inc_files and k.random() < 0.4:
            f = s("faults")
            special = f.choice(["missing", "missing", "isdir", "cycle", "selfcycle", "shared_first", "shared_first", "eio_open", "eacces_open", "eio_read"])
            victim = f.choice(inc_files)
            if special == "missing":
                del files[victim]
                if f.random() < 0.6:
                    # a same-named file lies beside the file that contains the directive (not under the root's
                    # directory): it must NOT be picked up - names resolve against the root Mapfile's directory
                    rel = posixpath.relpath(victim, rootdir)
                    for holder, text in list(files.items()):
                        if holder != root and posixpath.dirname(holder) != rootdir and any(
                                INC_RE.match(l) and posixpath.basename(victim) in l for l in text.split("\n")):
                            dec = posixpath.normpath(posixpath.join(posixpath.dirname(holder), rel))
                            if dec not in files and dec != victim:
                                files[dec] = 'NAME "decoy beside the including file"\n'
                                special = "missing_with_sibling_decoy"
            elif special == "isdir":
                del files[victim]
                dirs.append(victim)
            elif special == "shared_first":
                # a file of the tree is ALSO included directly from the root, textually before the line that
                # reaches it through the chain: the same file is met first at depth 1, later deeper
                rl = files[root].split("\n")
                at = next((i for i, l in enumerate(rl) if INC_RE.match(l)), None)
                if at is not None:
                    rel = posixpath.relpath(victim, rootdir)
                    rl.insert(at, f'INCLUDE "{rel}"')
                    files[root] = "\n".join(rl)
            elif special in ("cycle", "selfcycle"):
                # some file includes an ancestor-or-itself: the chain never ends by itself
                target = victim if special == "selfcycle" else f.choice(inc_files + [root])
                rel = posixpath.relpath(target, rootdir)
                files[victim] = files[victim] + f'\nINCLUDE "{rel}"\n'
            else:
                op, err = {"eio_open": ("open", "EIO"), "eacces_open": ("open", "EACCES"), "eio_read": ("read", "EIO")}[special]
                faults.append({"op": op, "cls": "simfs", "k": f.randint(1, max(1, len(inc_files))), "err": err, "path": ".map"})
        if inc_files and k.random() < 0.1:
            # an include file that is empty / holds only a comment: substituting it leaves nothing
            extra = posixpath.join(rootdir, f"empty{len(files)}.map")
            files[extra] = k.choice(["", "# nothing here\n", "\n\n"])
            rl = files[root].split("\n")
            at = next((i for i, l in enumerate(rl) if INC_RE.match(l)), None)
            if at is not None:
                rl.insert(at, f'INCLUDE "{posixpath.basename(extra)}"')
                files[root] = "\n".join(rl)
        steps = []
        nsteps = k.choice([1, 1, 1, 2, 3]) if not (special or faults) else k.choice([1, 2, 2, 3])
        originals = dict(state["files"])
        for _ in range(nsteps):
            mode = r.choice(["open", "load_named", "load_relname", "loads", "load_stringio", "parser_file", "parser_file", "parser_file", "parser_text", "parser_text",
                             "open_bare", "load_bare"])
            cwd = rootdir if mode in ("loads", "load_stringio", "parser_text", "open_bare", "load_bare") else r.choice(["/simfs/elsewhere", "/simfs", "/simfs/proj/inc", "/simfs/other/deep"])
            steps.append({"mode": mode, "cwd": cwd})
        if special in ("missing", "missing_with_sibling_decoy", "isdir") and nsteps >= 2 and k.random() < 0.7:
            # the operator repairs the tree between two calls: the retry must succeed
            steps[1]["repair"] = {victim: originals[victim]}
        if inc_files and not special and not faults and nsteps >= 2 and k.random() < 0.5:
            # somebody edits an include file between two calls (a value inside a quoted string changes, or the file
            # gains a statement): the next call must show the file as it is NOW
            vict = r.choice(inc_files)
            lines_ = files[vict].split("\n")
            cand = [i for i, l in enumerate(lines_) if '"' in l and not INC_RE.match(l) and not l.lstrip().startswith("#")]
            if cand:
                i_ = r.choice(cand)
                lines_[i_] = lines_[i_].replace('"', '"edited ', 1)
                steps[r.randrange(1, nsteps)]["repair"] = {vict: "\n".join(lines_)}
        if k.random() < 0.3:
            # decoys: files with the same relative names, different content, under the working directories
            for st_ in steps:
                for pth in inc_files[:6]:
                    rel = posixpath.relpath(pth, rootdir)
                    dec = posixpath.normpath(posixpath.join(st_["cwd"], rel))
                    if dec not in files and not dec.startswith(rootdir + "/") and dec.startswith("/simfs/"):
                        files[dec] = 'NAME "decoy"\n'
        twin = None
        if expand and not special and not faults and state["p_abs"] == 0.0 and k.random() < 0.25:
            # a second project with the same relative layout and different content under another base directory;
            # both are opened through the SAME relative root name from their own base as working directory
            twin = "/simfs/twinB"
            for pth, txt in list(files.items()):
                if pth.startswith(rootdir + "/") or posixpath.dirname(pth) == rootdir or pth.startswith("/simfs/"):
                    files[twin + pth[len("/simfs"):]] = txt.replace('"', '"T', 1)
            steps = []
            for _ in range(k.choice([2, 3, 4])):
                steps.append({"mode": r.choice(["open_rel", "open_rel", "load_relname2"]), "cwd": r.choice(["/simfs", twin]), "twin": True})
        return {"prop": "C15", "seed": seed, "files": files, "dirs": dirs, "root": root, "expand": expand, "twin": twin,
                "flags": {"include_comments": k.random() < 0.3, "include_position": k.random() < 0.3},
                "reuse_parser": k.random() < 0.5, "steps": steps, "faults": faults, "special": special,
                "locale_encoding": k.choice(["utf-8", "utf-8", "cp1252", "latin-1"]),
                "real_replay": (not faults) and k.random() < (0.03 if tier == "quick" else 0.1)}

    # ---------------------------------------------------------------- execute
    def make_fs(self, case, faults=True, cwd="/simfs"):
        fs = simfs.SimFS(case["files"], cwd=cwd, faults=case["faults"] if faults else None,
                         default_encoding=case.get("locale_encoding", "utf-8"))
        for d in case["dirs"]:
            fs.mkdir(d)
        for d in ("/simfs/elsewhere", "/simfs/other", "/simfs/other/deep", "/simfs/proj", "/simfs/proj/inc", "/simfs/twinB"):
            fs.mkdir(d)
        return fs

    def model(self, case, step, plan):
        """-> (kind, flat_text|None, opens). kind: ok | too_deep | oserror.
        plan: the model's own copy of the fault plan (counts persist across steps)."""
        clean = self.make_fs(case, faults=False)
        opens = []

        def read(path):
            # the referenced file's content: its bytes decoded as UTF-8, nothing else
            for f in plan:
                if f["op"] == "open" and f.get("path", "") in path and not f.get("_done"):
                    f["_n"] += 1
                    if f["_n"] == f["k"]:
                        f["_done"] = True
                        raise OSError("injected open fault")
            with clean.open(path, "r", encoding="utf-8", newline="") as fh:  # the file's content, verbatim
                for f in plan:
                    if f["op"] == "read" and f.get("path", "") in path and not f.get("_done"):
                        f["_n"] += 1
                        if f["_n"] == f["k"]:
                            f["_done"] = True
                            raise OSError("injected read fault")
                return fh.read()

        if step.get("twin"):
            case = dict(case, root=step["cwd"] + case["root"][len("/simfs"):])
        rootdir = posixpath.dirname(case["root"])
        mode = step["mode"]
        try:
            if mode in ("loads", "load_stringio", "parser_text"):
                root_text = case["files"][case["root"]]  # handed over as a str: no newline translation
                base = step["cwd"]
            else:
                opens.append(case["root"])
                root_text = read(case["root"])
                base = rootdir
            if not case["expand"]:
                return "ok", root_text, opens
            flat = flatten(root_text, base, read, opens)
            return "ok", flat, opens
        except TooDeep:
            return "too_deep", None, opens
        except OSError:
            return "oserror", None, opens

    def do_step(self, case, step, parser):
        mf = self.mf
        mode = step["mode"]
        flags = case["flags"]
        kw = dict(flags, expand_includes=case["expand"])
        root = case["root"]
        if mode in ("open_rel", "load_relname2"):
            rel = case["root"][len("/simfs/"):]  # the same relative name, whatever the working directory is
            if mode == "open_rel":
                return mf.open(rel, **kw)
            with open(rel, "r", encoding="utf-8", newline="") as fp:
                return mf.load(fp, **kw)
        if mode in ("open_bare", "load_bare"):
            bare = posixpath.basename(root)  # the working directory is the root's folder and the name has no directory part
            if mode == "open_bare":
                return mf.open(bare, **kw)
            with open(bare, "r", encoding="utf-8", newline="") as fp:
                return mf.load(fp, **kw)
        if mode == "open":
            return mf.open(root, **kw)
        if mode == "load_named":
            with open(root, "r", encoding="utf-8", newline="") as fp:  # the stream delivers the file content verbatim
                return mf.load(fp, **kw)
        if mode == "load_relname":
            rel = posixpath.relpath(root, step["cwd"])
            with open(rel, "r", encoding="utf-8", newline="") as fp:
                return mf.load(fp, **kw)
        text = case["files"][root]
        if mode == "loads":
            return mf.loads(text, **kw)
        if mode == "load_stringio":
            return mf.load(io.StringIO(text, newline=""), **kw)
        xf = self.MapfileToDict(include_position=flags["include_position"], include_comments=flags["include_comments"])
        if mode == "parser_file":
            return xf.transform(parser.parse_file(root))
        return xf.transform(parser.parse(text))

    def execute(self, case):
        stats = {}

        def bump(k, n=1):
            stats[k] = stats.get(k, 0) + n

        def viol(inv, step, detail, **sig):
            return {"invariant": inv, "kind": step["mode"],
                    "sig": dict(sig, mode=step["mode"], special=str(case.get("special")), expand=str(case["expand"]),
                                unquoted_absolute_name_in_root="yes" if unq_abs else "no"), "detail": detail}

        mf = self.mf
        root_lines = case["files"].get(case["root"], "").split("\n")
        unq_abs = any(INC_RE.match(l) and l.split("#", 1)[0].split()[1:2] and l.split("#", 1)[0].split()[1].startswith("/") for l in root_lines)
        # ---- stub fidelity first (this process has not called the library yet, so the two forks inside
        #      are pristine): the same world on a real directory must behave like the simulated one
        if case.get("real_replay") and not (unq_abs and not case["expand"]):  # (known-finding domain: output depends on the path text)
            v = self.real_replay(case)
            bump("stub_fidelity_replays")
            if v:
                raise core.HarnessError("simfs differs from a real directory: " + json.dumps(v)[:800])
        fs = self.make_fs(case)
        violation = None
        parser = None
        plan = [dict(f, _n=0) for f in case["faults"]]
        n_inc = sum(1 for t in case["files"].values() for l in t.split("\n") if INC_RE.match(l))
        maxdepth_seen = 0
        steps = 0
        trace = []  # what actually happened, for the run digest
        for si, step in enumerate(case["steps"]):
            steps += 1
            fired_before = len(fs.fired_faults)
            if step.get("repair"):
                case = dict(case, files=dict(case["files"], **step["repair"]), dirs=[d for d in case["dirs"] if d not in step["repair"]])
                for pth, txt in step["repair"].items():
                    fs.dirs.discard(pth)
                    fs.add(pth, txt)
                bump("fault.tree_repaired_between_calls")
            kind, flat, opens = self.model(case, step, plan)
            fs.cwd = step["cwd"]
            h0 = len(fs.history)
            with simfs.mounted(fs):
                if step["mode"].startswith("parser_") and (parser is None or not case["reuse_parser"]):
                    parser = self.Parser(expand_includes=case["expand"], include_comments=case["flags"]["include_comments"])
                got = core.call(lambda: self.do_step(case, step, parser))
            hist = fs.history[h0:]
            sim_opens = [e[2] for e in hist if e[1] == "open" and e[4] == "simfs"]
            writes = [e for e in hist if e[1] == "open" and any(c in e[3] for c in "wax+")]
            bump("mode." + step["mode"])
            bump("model." + kind)
            trace.append([step["mode"], kind, got[0], got[1][1] if got[0] == "exc" else core.digest(got[1]), [e[1:4] for e in hist]])
            for f in fs.fired_faults[fired_before:]:
                bump(f"fault.{f['op']}_{f['err']}")
            if case.get("special") in ("missing", "missing_with_sibling_decoy", "isdir", "cycle", "selfcycle", "shared_first") and si == 0:
                bump("fault.tree_" + case["special"])
            if writes:
                violation = viol("opened_for_writing", step, writes[:3])
                break
            if fs.open_handles != 0:
                violation = viol("handle_left_open", step, {"open_handles": fs.open_handles})
                break
            # too deep / cyclic: "raises instead of recursing forever" - an implementation may notice a cycle
            # earlier than the model does, so any prefix of the model's opens is accepted there (bounded liveness);
            # everywhere else the sequence must be exactly the model's
            # An implementation may also remember a file it has already read during the same call, so the
            # sequences are compared by first occurrence of each path (order kept); nothing outside the
            # model's sequence may be opened, and nothing the model needs may be skipped.
            def first_occ(seq):
                seen, out = set(), []
                for p_ in seq:
                    if p_ not in seen:
                        seen.add(p_)
                        out.append(p_)
                return out

            fo_real, fo_model = first_occ(sim_opens), first_occ(opens)
            seq_ok = (fo_real == fo_model and len(sim_opens) <= len(opens)) or (
                kind == "too_deep" and got[0] == "exc" and fo_real == fo_model[:len(fo_real)] and len(sim_opens) <= len(opens))
            if not seq_ok:
                violation = viol("open_sequence", step, {"real": sim_opens, "model": opens, "cwd": step["cwd"]}, model=kind)
                break
            if kind == "ok":
                if got[0] != "ok":
                    # the flattened text itself may be unparseable only if the generator is wrong
                    with simfs.mounted(self.make_fs(case, faults=False, cwd="/simfs/elsewhere")):
                        ref = core.call(lambda: self.ref_loads(flat, case["flags"]))
                    if ref[0] == "exc" and ref[1][:2] == got[1][:2]:
                        bump("both_fail_to_parse")
                        continue
                    violation = viol("raised_but_model_expands", step, {"real": got[1], "model_opens": opens}, model=kind)
                    break
                if case["expand"]:
                    with simfs.mounted(self.make_fs(case, faults=False, cwd="/simfs/elsewhere")):
                        ref = core.call(lambda: self.ref_loads(flat, case["flags"]))
                    if ref[0] != "ok" or ref[1] != got[1]:
                        violation = viol("differs_from_substitution", step, {"real": _short(got[1]), "substituted": _short(ref[1])}, model=kind)
                        break
                    bump("checked.equal_to_substitution")
                else:
                    want = include_lists(flat)
                    d = got[2]
                    bad = None
                    for path, vals in want.items():
                        try:
                            obj = navigate(d, path)
                            have = list(obj.get("include"))
                        except Exception as e:  # noqa: BLE001
                            have = f"<{type(e).__name__}>"
                        if have != vals:
                            bad = {"object": path, "dict": have, "text": vals}
                            break
                    if bad:
                        violation = viol("directives_not_kept_as_data", step, bad, model=kind)
                        break
                    # written back unchanged: read the INCLUDE lines of the printed text with the same
                    # line walker (re-parsing all of it would drag unrelated printer behaviour into C15)
                    pr = core.call(lambda: mf.dumps(d))
                    bad = None
                    if pr[0] != "ok":
                        bad = {"dumps_failed": pr[1]}
                    else:
                        printed = include_lists(pr[2])
                        if printed != want:
                            bad = {"printed": sorted(printed.items()), "text": sorted(want.items())}
                    if bad:
                        violation = viol("directives_not_written_back", step, bad, model=kind)
                        break
                    bump("checked.kept_as_data")
            elif kind == "too_deep":
                if got[0] == "ok":
                    violation = viol("too_deep_or_cyclic_returned_a_value", step, {"model_opens": opens}, model=kind)
                    break
                if "RecursionError" in got[1][1]:
                    violation = viol("recursion_error", step, got[1], model=kind)
                    break
                bump("checked.bounded_error")
            else:
                if got[0] == "ok":
                    violation = viol("io_error_swallowed", step, {"model_opens": opens}, model=kind)
                    break
                if not isinstance(got[2], OSError):
                    violation = viol("io_error_wrong_class", step, got[1], model=kind)
                    break
                bump("checked.io_error_fail_stop")
            maxdepth_seen = max(maxdepth_seen, len(opens))
        return {"violation": violation, "digest": core.digest([case["files"], case["steps"], case["faults"], case["dirs"], trace]),
                "nontrivial": n_inc >= 2 or bool(case.get("special")), "stats": stats, "steps": steps}

    def real_replay(self, case):
        tmp = tempfile.mkdtemp(prefix="verif-c15-", dir=core.TMPBASE)
        try:
            def rp(p):
                return tmp + p[len("/simfs"):]
            for p, t in case["files"].items():
                os.makedirs(os.path.dirname(rp(p)), exist_ok=True)
                with simfs._real_open(rp(p), "wb") as f:
                    f.write(t.replace("/simfs/", tmp + "/").encode("utf-8"))
            for d in case["dirs"] + ["/simfs/elsewhere"]:
                os.makedirs(rp(d), exist_ok=True)
            step = {"mode": "open", "cwd": "/simfs/elsewhere"}
            def on_sim():
                sim_fs = self.make_fs(case, faults=False, cwd=step["cwd"])
                with simfs.mounted(sim_fs):
                    a = core.call(lambda: self.do_step(case, step, None))
                return [a[0], a[1], [e[2] for e in sim_fs.history if e[1] == "open" and e[4] == "simfs"]]

            def on_real():
                real_fs = simfs.SimFS({}, cwd=rp(step["cwd"]))
                case2 = dict(case, root=rp(case["root"]))
                with simfs.mounted(real_fs):
                    b = core.call(lambda: self.do_step(case2, step, None))
                return [b[0], b[1], ["/simfs" + e[2][len(tmp):] for e in real_fs.history if e[1] == "open" and e[2].startswith(tmp)]]

            # each side in its own pristine process: the only difference is the block layer
            a, b = core.in_fork(on_sim), core.in_fork(on_real)
            so, ro = a[2], b[2]
            fa = json.dumps(a[1]).replace(tmp + "/", "/simfs/")
            fb = json.dumps(b[1]).replace(tmp + "/", "/simfs/")
            if a[0] == "exc" and b[0] == "exc":
                fa, fb = a[1][1], b[1][1]  # positions in messages depend on the length of absolute names
            if a[0] != b[0] or fa != fb or so != ro:
                return {"sim": a[:2] if a[0] == "exc" else a[0], "real": b[:2] if b[0] == "exc" else b[0], "sim_opens": so, "real_opens": ro}
            return None
        finally:
            shutil.rmtree(tmp, ignore_errors=True)

    def shrink_fields(self, case):
        return [["steps"]]

    def shrink_candidates(self, case):
        # drop files that are not referenced any more / drop trailing lines of files
        for p in sorted(case["files"]):
            if p == case["root"]:
                continue
            name = posixpath.basename(p)
            if not any(name in t for q, t in case["files"].items() if q != p):
                c = json.loads(json.dumps(case))
                del c["files"][p]
                yield c
        for p, t in sorted(case["files"].items()):
            lines = t.split("\n")
            if len(lines) > 3:
                for i in range(len(lines)):
                    if not INC_RE.match(lines[i]) and lines[i].strip():
                        yield core.set_path(case, ["files", p], "\n".join(lines[:i] + lines[i + 1:]))


def _strip_hidden(fz):
    """drop __position__ entries from a frozen dict (positions change when text is re-printed)"""
    if isinstance(fz, list):
        if len(fz) == 2 and isinstance(fz[0], str) and fz[0].startswith("D:"):
            return [fz[0], [[k, _strip_hidden(v)] for k, v in fz[1] if k not in ("__position__", "__comments__")]]
        return [_strip_hidden(x) for x in fz]
    return fz


def _short(x, n=1200):
    s = json.dumps(x, default=str)
    return s if len(s) <= n else s[:n] + "..."


if __name__ == "__main__":
    core.main(C15(), os.path.abspath(__file__))
