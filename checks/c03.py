#!/venv/bin/python
"""C03 - pretty-printed text says exactly what the dictionary says.

What simulation decides here: the HISTORY clause (any dictionary reached by
dict-API edits prints what it now contains), the STREAM clause (a refused
dictionary writes nothing; an existing file stays byte-identical) and printing
under I/O faults at the schema seam (a faulted dumps may raise, but text it
returns must still be right). The per-keyword lexical-class clause is a pure
function of the dictionary; it is sampled through the workload (every value is
generated together with the token class MapServer requires for it) and claims
no more than sampling.

Machine: a living Mapfile dictionary (real CaseInsensitiveOrderedDict objects,
edited only through the dict API / mappyfile.update / loads of snippets) and a
shadow model of what it should contain (sim/c03model.py). After edits:
dumps / dump to a recording stream / save onto a simulated file that already
holds older content. Oracle: an independent reader of the printed text (no lark,
no repo code) must yield exactly the model's expected token sequence, or the
call must refuse and leave zero bytes behind.
"""
import os
import sys

sys.path.insert(0, os.path.dirname(os.path.dirname(os.path.abspath(__file__))))
from sim import core  # noqa: E402

if __name__ == "__main__":
    core.bootstrap()

import json  # noqa: E402

from sim import simfs  # noqa: E402
from sim import c03model as M  # noqa: E402

PP = [{}, {"indent": 2}, {"indent": 0}, {"indent": 1, "spacer": "\t"}, {"quote": "'"}, {"end_comment": True}, {"align_values": True},
      {"indent": 3, "align_values": True}, {"newlinechar": "\r\n"}, {"indent": 2, "quote": "'", "end_comment": True, "align_values": True},
      {"indent": 0, "newlinechar": "\r\n", "end_comment": True}, {"indent": 8, "spacer": "\t", "align_values": True}, {"indent": 1, "newlinechar": " "}]


class Recorder:
    """A caller-supplied stream: counts what reaches it."""

    def __init__(self):
        self.chunks = []

    def write(self, s):
        self.chunks.append(s)
        return len(s)

    def writelines(self, lines):  # (part of the text-stream interface: a caller's stream has it)
        for s in lines:
            self.write(s)

    def flush(self):
        pass

    def getvalue(self):
        return "".join(self.chunks)


class C03(core.Check):
    pid = "C03"
    level = "exploration"
    quick_runs = 7000
    thorough_runs = 600000
    quick_budget_s = 45.0
    thorough_budget_s = 1500.0
    chunk = 25
    run_timeout_s = 60.0
    isolate = True  # a printer cached by the library must not carry state from one run into the next
    rule = (
        "one evaluation = one edit history (1-30 steps) on a living Mapfile dictionary built through the dict API "
        "from a schema-generated shadow model (19 object types, 261 keyword alternatives: enum, string, number, "
        "boolean, rgb/extent/pair arrays, hex colour, [binding], (expression), /regex/[i], {list}, key-value "
        "blocks, CONFIG, PROJECTION, POINTS, PATTERN, repeated keys): set/replace/delete keyword, add/insert/"
        "remove/reorder/share child objects, singleton blocks, loads() of snippets rendered by the harness, "
        "mappyfile.update patches, hidden __x__ keys, reads of missing keys (auto-created {} / []), deletes that "
        "repair them; after steps dumps/dump/save under 9 option sets, 15% of histories with an I/O fault at the "
        "k-th schema read. Oracle: independent reader == expected tokens, or refusal with zero bytes written. "
        "distinct = digest of (initial model, steps); non-trivial = >= 3 edit kinds or an unprintable state or a fault."
    )
    assumptions = [
        "values are generated together with their lexical class from the schema alternative they instantiate; shapes whose class is "
        "ambiguous (regex-looking values for non-expression keywords, GEOMTRANSFORM 'end', strings containing the output quote "
        "character) are left out of the workload rather than guessed",
        "the lexical-class clause is only sampled; exhaustive enumeration of (type, keyword, shape) is another technique's job",
        "bare words are compared case-insensitively, numbers numerically",
    ]
    real_components = ["mappyfile.pprint.PrettyPrinter, quoter, validator schema lookup", "mappyfile.ordereddict classes", "mappyfile.update, loads (snippets), dumps/dump/save"]
    stubbed_components = ["file system behind save() and schema reads (sim/simfs.py)", "caller stream for dump() (recording object)"]

    def setup(self):
        self.mf = core.import_repo()
        simfs.install()
        from mappyfile.ordereddict import CaseInsensitiveOrderedDict

        self.CI = CaseInsensitiveOrderedDict
        self.vocab = M.Vocab(os.path.join(core.REPO, "mappyfile", "schemas"))

    # ------------------------------------------------------------ shadow generation
    @staticmethod
    def gen_kv(r, typ, names):
        """a key-value block (METADATA, VALIDATION, VALUES, CONNECTIONOPTIONS): 0-4 of the names, in any order"""
        ks = r.sample(names, r.randint(0, min(4, len(names))))
        return ["kv", {"type": typ, "items": [[k_, ["attr", None, r.choice(M.WORDS)]] for k_ in ks]}]

    @staticmethod
    def list_len(r, small):
        """length of a repeated / pair list: usually a few, now and then long (a digitised polygon, a long dash
        pattern), never a round number only"""
        c = r.random()
        if c < 0.8:
            return r.randint(1, small)
        if c < 0.9:
            return r.randint(small + 1, 12)
        return r.randint(13, 70)

    @staticmethod
    def ordinate(r, plain):
        """an ordinate of a POINTS / PATTERN pair: mostly the small numbers of hand-written symbols, now and then a
        digitised coordinate with 7-9 decimals (lon/lat) or a long dash length"""
        if r.random() < 0.8:
            return plain
        return round(1 + r.uniform(0, 179), r.choice([7, 8, 9]))

    def gen_attr(self, r, typ, key):
        kinds = [k for k in self.vocab.kinds_for(typ, key) if not (k == "regex" and key not in ("expression", "filter", "text"))]
        if not kinds:
            return None
        enums = [k for k in kinds if k.startswith("enum:")]
        kind = r.choice(enums) if (enums and key in self._focus and r.random() < 0.6) else r.choice(kinds)
        v, toks = self.vocab.gen(r, kind, key)
        return ["attr", toks, v, kind]

    _focus: tuple = ()

    def shared_keywords(self):
        """keyword names that exist in two or more object types (their definitions differ per type)"""
        cnt = {}
        for t, kws in self.vocab.keywords.items():
            for k in kws:
                cnt.setdefault(k, set()).add(t)
        return sorted(k for k, ts in cnt.items() if len(ts) >= 2)

    def gen_block(self, r, typ, depth=0):
        items = []
        kws = sorted(self.vocab.keywords.get(typ, {}))
        r.shuffle(kws)
        chosen = kws[: r.choice([0, 1, 2, 3, 5, 8])]
        # swarm: this run's focus keywords appear in every object type that has them, so that the same
        # keyword name is printed for different types (with different definitions) within one document
        for k in self._focus:
            if k in self.vocab.keywords.get(typ, {}) and k not in chosen and r.random() < 0.7:
                chosen.append(k)
        for k in chosen:
            a = self.gen_attr(r, typ, k)
            if a:
                items.append([k, a])
        extras = []
        if typ in ("map", "layer", "class", "web") and r.random() < 0.4:
            extras.append(["metadata", self.gen_kv(r, "metadata", ["key0", "key1", "key2", "wms_title", "ows_enable_request", "b", "a", "10", "9", "z y", "__source_id"])])
        if typ == "layer" and r.random() < 0.15:
            extras.append(["validation", self.gen_kv(r, "validation", ["layer", "default_layer", "b", "a", "2", "10", "__v"])])
        if typ == "layer" and r.random() < 0.1:
            extras.append(["connectionoptions", self.gen_kv(r, "connectionoptions", ["flatten_nested_attributes", "b_opt", "a_opt"])])
        if typ == "scaletoken" and r.random() < 0.7:
            # the scale thresholds in whatever order the dictionary was filled (an edit history appends)
            extras.append(["values", self.gen_kv(r, "values", ["0", "1000", "25000", "100000", "5e5", "2500.5"])])
        if typ == "layer":
            if r.random() < 0.3:
                extras.append(["processing", ["repeated", [r.choice(["BANDS=1,2,3", "SCALE=0,255", "CLOSE_CONNECTION=DEFER"]) for _ in range(self.list_len(r, 3))]]])
            if r.random() < 0.25:
                extras.append(["projection", ["projection", r.choice(["AUTO", ["init=epsg:4326"], ["proj=utm", "zone=12", "datum=WGS84"]])]])
        if typ == "map":
            if r.random() < 0.3:
                extras.append(["config", ["config", [[k, v] for k, v in r.sample([["ms_errorfile", "stderr"], ["proj_lib", "/usr/share/proj"], ["cpl_debug", "ON"]], r.randint(1, 2))]]])
            if r.random() < 0.2:
                extras.append(["projection", ["projection", r.choice(["AUTO", ["init=epsg:3857"]])]])
        if typ == "style" and r.random() < 0.25:
            extras.append(["pattern", ["pattern", [[self.ordinate(r, r.randint(1, 9)), self.ordinate(r, r.randint(1, 9))] for _ in range(self.list_len(r, 3))]]])
        if typ == "feature" and r.random() < 0.4:
            extras.append(["points", ["multipoints", [[[self.ordinate(r, r.randint(0, 50)), self.ordinate(r, r.choice([1, 2.5, 10]))] for _ in range(self.list_len(r, 3))] for _ in range(2)]]])
        elif typ == "feature" or (typ == "symbol" and r.random() < 0.4):
            extras.append(["points", ["points", [[self.ordinate(r, r.randint(0, 50)), self.ordinate(r, r.choice([1, 2.5, 10]))] for _ in range(self.list_len(r, 4))]]])
        if typ == "outputformat" and r.random() < 0.5:
            extras.append(["formatoption", ["repeated", [r.choice(["GAMMA=0.75", "QUALITY=80"]) for _ in range(r.randint(1, 2))]]])
        if depth < 3:
            for key, ctype, is_list in self.vocab.children.get(typ, []):
                if ctype in ("symbol",) and typ != "map":
                    continue
                p = {0: 0.45, 1: 0.35, 2: 0.25}[depth]
                if is_list:
                    if r.random() < p:
                        extras.append([key, ["blocks", [self.gen_block(r, ctype, depth + 1) for _ in range(r.choice([1, 1, 2, 3]))]]])
                elif r.random() < p * 0.6:
                    extras.append([key, ["block", self.gen_block(r, ctype, depth + 1)]])
        items += extras
        r.shuffle(items)
        return {"type": typ, "items": items}

    def shadow_from_created(self, typ, d):
        """Shadow block for an object made by mappyfile.create(): defaults are simple values whose
        lexical class follows from their Python type and the keyword's enumeration, if any."""
        items = []
        for k, v in d.items():
            if k == "__type__":
                continue
            kinds = self.vocab.kinds_for(typ, k)
            enum_words = {w for kd in kinds if kd.startswith("enum:") for w in kd[5:].split(",")}
            if isinstance(v, bool):
                toks = [["W", "TRUE" if v else "FALSE"]]
            elif isinstance(v, (int, float)):
                toks = [["N", str(v)]]
            elif isinstance(v, str):
                toks = [["W", v.upper()]] if v.lower() in enum_words else [["Q", v]]
            elif isinstance(v, list) and all(isinstance(x, (int, float)) and not isinstance(x, bool) for x in v):
                toks = [["N", str(x)] for x in v]
            else:
                return None
            items.append([k, ["attr", toks, v, "created-default"]])
        # (objects from create() have no default factory: reading a missing key raises KeyError, creates nothing)
        return {"type": typ, "items": items, "nofactory": True}

    # ------------------------------------------------------------ real objects from the shadow
    def build(self, b):
        CI = self.CI
        d = CI(CI)
        d["__type__"] = b["type"]
        for k, item in b["items"]:
            d[k] = self.build_item(item)
        return d

    def build_item(self, item):
        CI = self.CI
        kind = item[0]
        if kind == "attr":
            return json.loads(json.dumps(item[2]))
        if kind == "block":
            return self.build(item[1])
        if kind == "blocks":
            return [self.build(c) for c in item[1]]
        if kind == "kv":
            d = CI(CI)
            for k, v in item[1]["items"]:
                d[k] = v[2]
            d["__type__"] = item[1]["type"]
            return d
        if kind == "repeated":
            return list(item[1])
        if kind == "config":
            d = CI(CI)
            for k, v in item[1]:
                d[k] = v
            return d
        if kind == "projection":
            return ["AUTO"] if item[1] == "AUTO" else list(item[1])
        if kind in ("points", "pattern"):
            return [list(p) for p in item[1]]
        if kind == "multipoints":
            return [[list(p) for p in part] for part in item[1]]
        raise core.HarnessError("cannot build " + kind)

    # ------------------------------------------------------------ harness-side renderer (for snippets)
    def render(self, b, q='"', ind=0):
        if b.get("type") is None:
            return []
        pad = "  " * ind
        out = [pad + b["type"].upper()]
        for k, item in b["items"]:
            kind = item[0]
            if kind == "attr" and len(item) > 3 and item[3] == "istring":
                out.append(pad + "  " + k.upper() + " " + item[2])  # "text"i is ONE lexeme: written as the value itself
            elif kind == "attr":
                out.append(pad + "  " + k.upper() + " " + " ".join((q + t + q) if c == "Q" else t for c, t in item[1]))
            elif kind == "block":
                out += self.render(item[1], q, ind + 1)
            elif kind == "blocks":
                for c in item[1]:
                    out += self.render(c, q, ind + 1)
            elif kind == "kv":
                out.append(pad + "  " + item[1]["type"].upper())
                for kk, vv in item[1]["items"]:
                    out.append(pad + f"    {q}{kk}{q} {q}{vv[2]}{q}")
                out.append(pad + "  END")
            elif kind == "repeated":
                for s in item[1]:
                    out.append(pad + f"  {k.upper()} {q}{s}{q}")
            elif kind == "config":
                for ck, cv in item[1]:
                    out.append(pad + f"  CONFIG {q}{ck}{q} {q}{cv}{q}")
            elif kind == "projection":
                out.append(pad + "  PROJECTION")
                out += [pad + "    AUTO"] if item[1] == "AUTO" else [pad + f"    {q}{s}{q}" for s in item[1]]
                out.append(pad + "  END")
            elif kind in ("points", "pattern"):
                out.append(pad + "  " + k.upper())
                out += [pad + f"    {x} {y}" for x, y in item[1]]
                out.append(pad + "  END")
            elif kind == "multipoints":
                for part in item[1]:
                    out.append(pad + "  POINTS")
                    out += [pad + f"    {x} {y}" for x, y in part]
                    out.append(pad + "  END")
        out.append(pad + "END")
        return out

    # ------------------------------------------------------------ addressing
    def blocks_of(self, b, path=()):
        """[(path, block)] of every composite block reachable in the shadow; path = ((key, idx|None), ...)"""
        out = [(path, b)]
        for k, item in b["items"]:
            if item[0] == "block":
                out += self.blocks_of(item[1], path + ((k, None),))
            elif item[0] == "blocks":
                for i, c in enumerate(item[1]):
                    if c.get("type") is not None:
                        out += self.blocks_of(c, path + ((k, i),))
        return out

    def resolve(self, root_s, root_r, path):
        s, r = root_s, root_r
        for k, i in path:
            item = next((it for kk, it in s["items"] if kk == k), None)
            if item is None:
                return None, None
            if i is None:
                if item[0] != "block":
                    return None, None
                s, r = item[1], r.get(k)
            else:
                if item[0] != "blocks" or i >= len(item[1]):
                    return None, None
                s, r = item[1][i], r.get(k)[i]
            if s.get("type") is None:
                return None, None  # an empty untyped child is not an object one can edit through a path
        return s, r

    @staticmethod
    def get_item(s, key):
        for kk, it in s["items"]:
            if kk == key:
                return it
        return None

    @staticmethod
    def set_item(s, key, item):
        for pair in s["items"]:
            if pair[0] == key:
                pair[1] = item
                return
        s["items"].append([key, item])

    @staticmethod
    def del_item(s, key):
        s["items"][:] = [p for p in s["items"] if p[0] != key]

    # ------------------------------------------------------------ generate
    def generate(self, seed, tier):
        s = core.Streams(seed)
        k, r, w = s("knobs"), s("ops"), s("workload")
        root_t = k.choice(["map", "map", "map", "layer", "class", "style", "label", "legend", "scalebar", "web"])
        shared = self.shared_keywords()
        self._focus = tuple(k.sample(shared, k.choice([0, 1, 2, 3]))) if shared else ()
        model = self.gen_block(w, root_t)
        shadow = json.loads(json.dumps(model))
        steps = []
        weights = {"set": 6, "del": 2, "add_child": 3, "remove_child": 1, "reorder": 1, "singleton": 1, "snippet": 2, "update": 2,
                   "hidden": 1, "read_missing": 2, "repair": 2, "share": 1, "create_child": 1, "update_nested": 2, "empty_child": 1, "print": 6}
        for x in list(weights):
            if x != "print" and k.random() < 0.2:
                weights[x] = 0
        names = [a for a in weights if weights[a]]
        for _ in range(k.choice([1, 2, 3, 5, 8, 12, 20, 30])):
            name = r.choices(names, [weights[a] for a in names])[0]
            blocks = self.blocks_of(shadow)
            path, blk = r.choice(blocks)
            typ = blk["type"]
            path = [list(p) for p in path]
            if name == "set":
                keys = sorted(self.vocab.keywords.get(typ, {}))
                if not keys:
                    continue
                key = r.choice(keys)
                a = self.gen_attr(r, typ, key)
                if not a:
                    continue
                self.set_item(blk, key, a)
                steps.append({"op": "set", "path": path, "key": r.choice([key, key.upper(), key.capitalize()]), "item": a})
            elif name == "del":
                keys = [kk for kk, it in blk["items"] if it[0] in ("attr", "kv", "repeated", "projection", "unprintable")]
                if not keys:
                    continue
                key = r.choice(keys)
                self.del_item(blk, key)
                steps.append({"op": "del", "path": path, "key": key})
            elif name in ("add_child", "snippet"):
                ch = [c for c in self.vocab.children.get(typ, []) if c[2] and not (c[1] == "symbol" and typ != "map")]
                if not ch:
                    continue
                key, ctype, _ = r.choice(ch)
                child = self.gen_block(w, ctype, 2)
                cur = self.get_item(blk, key)
                if cur is not None and cur[0] != "blocks":
                    continue
                lst = cur[1] if cur else []
                if name == "add_child":
                    pos = r.randint(0, len(lst))
                    lst.insert(pos, child)
                    self.set_item(blk, key, ["blocks", lst])
                    steps.append({"op": "add_child", "path": path, "key": key, "pos": pos, "block": json.loads(json.dumps(child))})
                else:
                    kids = [child] + ([self.gen_block(w, ctype, 2)] if r.random() < 0.4 else [])
                    self.set_item(blk, key, ["blocks", kids])
                    steps.append({"op": "snippet", "path": path, "key": key, "blocks": json.loads(json.dumps(kids)), "quote": r.choice(['"', "'"])})
            elif name == "empty_child":
                # an empty, untyped dict ends up among the child objects (update() pads a list with {} when a patch
                # reaches past its end; a user may insert one and forget to fill it in): it has no representation
                ch = [c for c in self.vocab.children.get(typ, []) if c[2] and not (c[1] == "symbol" and typ != "map")]
                if not ch:
                    continue
                key, ctype, _ = r.choice(ch)
                cur = self.get_item(blk, key)
                if cur is not None and cur[0] != "blocks":
                    continue
                lst = cur[1] if cur else []
                how = r.choice(["insert_plain", "insert_ci", "update_padding"])
                pos = len(lst) if how == "update_padding" else r.randint(0, len(lst))
                lst.insert(pos, {"type": None, "items": []})
                self.set_item(blk, key, ["blocks", lst])
                steps.append({"op": "empty_child", "path": path, "key": key, "pos": pos, "how": how})
            elif name == "create_child":
                ch = [c for c in self.vocab.children.get(typ, []) if not (c[1] == "symbol" and typ != "map")]
                if not ch:
                    continue
                key, ctype, is_list = r.choice(ch)
                cur = self.get_item(blk, key)
                if cur is not None and cur[0] != ("blocks" if is_list else "block"):
                    continue
                version = r.choice([None, None, 7.6, 8.0])
                child = self.shadow_from_created(ctype, self.mf.create(ctype, version))
                if child is None:
                    continue
                if is_list:
                    lst = cur[1] if cur else []
                    lst.append(child)
                    self.set_item(blk, key, ["blocks", lst])
                else:
                    self.set_item(blk, key, ["block", child])
                steps.append({"op": "create_child", "path": path, "key": key, "type": ctype, "version": version, "is_list": is_list,
                              "block": json.loads(json.dumps(child))})
            elif name in ("remove_child", "reorder"):
                lists = [(kk, it) for kk, it in blk["items"] if it[0] == "blocks" and it[1]]
                if not lists:
                    continue
                key, it = r.choice(lists)
                if name == "remove_child":
                    pos = r.randrange(len(it[1]))
                    it[1].pop(pos)
                    steps.append({"op": "remove_child", "path": path, "key": key, "pos": pos})
                else:
                    it[1].reverse()
                    steps.append({"op": "reorder", "path": path, "key": key})
            elif name == "singleton":
                ch = [c for c in self.vocab.children.get(typ, []) if not c[2] and c[1] != "symbol"]
                if not ch:
                    continue
                key, ctype, _ = r.choice(ch)
                child = self.gen_block(w, ctype, 2)
                self.set_item(blk, key, ["block", child])
                steps.append({"op": "singleton", "path": path, "key": key, "block": json.loads(json.dumps(child))})
            elif name == "update":
                keys = sorted(self.vocab.keywords.get(typ, {}))
                if not keys:
                    continue
                patch = []
                for key in r.sample(keys, min(len(keys), r.randint(1, 3))):
                    a = self.gen_attr(r, typ, key)
                    if a and a[3].split(":")[0] not in ("array", "tuple"):
                        cur = self.get_item(blk, key)
                        if cur is None or cur[0] == "attr":
                            self.set_item(blk, key, a)
                            patch.append([key, a])
                if patch:
                    steps.append({"op": "update", "path": path, "patch": patch})
            elif name == "update_nested":
                # one patch handed to mappyfile.update at the ROOT, reaching a nested object through dicts and
                # lists (None placeholders skip the items before it)
                if not path:
                    continue
                keys = sorted(self.vocab.keywords.get(typ, {}))
                if not keys:
                    continue
                key = r.choice(keys)
                a = self.gen_attr(r, typ, key)
                cur = self.get_item(blk, key)
                if not a or a[3].split(":")[0] in ("array", "tuple") or (cur is not None and cur[0] != "attr"):
                    continue
                self.set_item(blk, key, a)
                steps.append({"op": "update_nested", "path": path, "key": key, "item": a})
            elif name == "hidden":
                key = r.choice(["__note__", "__x__", "__comment__"])
                kvs = [kk for kk, it in blk["items"] if it[0] == "kv"]
                if kvs and r.random() < 0.5:
                    # hidden key (and an ordinary one) inside METADATA / VALIDATION ...
                    kvk = r.choice(kvs)
                    it = self.get_item(blk, kvk)
                    it[1]["items"].append([key, ["attr", None, "hidden value"]])
                    it[1]["items"].append(["shown" + str(len(it[1]["items"])), ["attr", None, "v"]])
                    steps.append({"op": "hidden_kv", "path": path, "key": kvk, "hidden": key, "shown": it[1]["items"][-1][0]})
                    continue
                self.set_item(blk, key, ["attr", [], "hidden value", "hidden"])
                steps.append({"op": "hidden", "path": path, "key": key})
            elif name == "read_missing":
                if blk.get("nofactory"):
                    continue
                cands = [kk for kk in list(self.vocab.keywords.get(typ, {})) + [c[0] for c in self.vocab.children.get(typ, [])] + ["metadata"]
                         if self.get_item(blk, kk) is None]
                if not cands:
                    continue
                key = r.choice(sorted(cands))
                if key in M.OBJECT_LISTS:
                    self.set_item(blk, key, ["blocks", []])
                elif key in M.KV_BLOCKS:
                    self.set_item(blk, key, ["kv", {"type": key, "items": []}])  # an empty METADATA block is representable
                else:
                    self.set_item(blk, key, ["unprintable", "auto-created empty dict"])
                steps.append({"op": "read_missing", "path": path, "key": r.choice([key, key.upper()])})
            elif name == "repair":
                bad = [(p, b, kk) for p, b in blocks for kk, it in b["items"] if it[0] == "unprintable"]
                if not bad:
                    continue
                p, b, key = r.choice(bad)
                self.del_item(b, key)
                steps.append({"op": "del", "path": [list(x) for x in p], "key": key})
            elif name == "share":
                lists = [(p, b, kk, it) for p, b in blocks for kk, it in b["items"] if it[0] == "blocks" and it[1]]
                if not lists:
                    continue
                p, b, key, it = r.choice(lists)
                src = r.randrange(len(it[1]))
                # the very same child object appears a second time (same list or the same key of another block of that type)
                targets = [(p2, b2) for p2, b2 in blocks if b2["type"] == b["type"]]
                p2, b2 = r.choice(targets)
                cur = self.get_item(b2, key)
                if cur is not None and cur[0] != "blocks":
                    continue
                lst = cur[1] if cur else []
                lst.append(it[1][src])
                self.set_item(b2, key, ["blocks", lst])
                steps.append({"op": "share", "from": [list(x) for x in p], "key": key, "src": src, "to": [list(x) for x in p2]})
            else:
                steps.append({"op": "print", "how": r.choice(["dumps", "dumps", "dump", "save"]), "pp": r.randrange(len(PP)), "as_list": r.random() < 0.08})
            # shadow was mutated in place while generating: nothing else to do
        steps.append({"op": "print", "how": r.choice(["dumps", "dump", "save"]), "pp": r.randrange(len(PP)), "as_list": r.random() < 0.08})
        faults = []
        if k.random() < 0.15:
            f = s("faults")
            faults.append({"op": f.choice(["open", "read"]), "cls": "schema", "k": f.choice([1, 1, 2, 3, 5, 8]), "err": f.choice(["EIO", "ENOENT", "EACCES"])})
        return {"prop": "C03", "seed": seed, "model": model, "steps": steps, "faults": faults}

    # ------------------------------------------------------------ execute
    def execute(self, case):
        mf = self.mf
        stats = {}

        def bump(k, n=1):
            stats[k] = stats.get(k, 0) + n

        shadow = json.loads(json.dumps(case["model"]))
        real = self.build(shadow)
        fs = simfs.SimFS({"/simfs/out/map.map": "OLD CONTENT\n"}, cwd="/simfs", faults=case.get("faults", []))
        violation = None
        kinds = set()
        had_unprintable = False
        steps = 0
        trace = []

        def viol(inv, step, detail, **sig):
            return {"invariant": inv, "kind": step["op"], "sig": dict(sig, op=step["op"]), "detail": detail, "step": steps}

        for step in case["steps"]:
            steps += 1
            op = step["op"]
            kinds.add(op)
            if op != "print":
                if op == "share":
                    s_from, r_from = self.resolve(shadow, real, [tuple(p) for p in step["from"]])
                    s_to, r_to = self.resolve(shadow, real, [tuple(p) for p in step["to"]])
                    if s_from is None or s_to is None:
                        continue
                    it = self.get_item(s_from, step["key"])
                    cur = self.get_item(s_to, step["key"])
                    if it is None or it[0] != "blocks" or step["src"] >= len(it[1]) or (cur is not None and cur[0] != "blocks"):
                        continue
                    lst = cur[1] if cur else []
                    lst.append(it[1][step["src"]])
                    self.set_item(s_to, step["key"], ["blocks", lst])
                    if s_to.get("nofactory") and step["key"] not in r_to:
                        r_to[step["key"]] = []
                    r_to[step["key"]].append(r_from[step["key"]][step["src"]])
                    bump("op.share")
                    continue
                s, r = self.resolve(shadow, real, [tuple(p) for p in step["path"]])
                if s is None:
                    bump("skipped.stale_path")
                    continue
                key = step.get("key")
                lk = key.lower() if key else None
                if s.get("nofactory"):
                    key = lk  # create() hands out a plain DefaultOrderedDict: keys are not folded on write, so use them as stored
                if op == "set":
                    self.set_item(s, lk, step["item"])
                    r[key] = self.build_item(step["item"])
                elif op == "del":
                    if self.get_item(s, lk) is None:
                        continue
                    self.del_item(s, lk)
                    del r[key]
                elif op == "add_child":
                    cur = self.get_item(s, lk)
                    if cur is not None and cur[0] != "blocks":
                        continue
                    lst = cur[1] if cur else []
                    pos = min(step["pos"], len(lst))
                    lst.insert(pos, json.loads(json.dumps(step["block"])))
                    self.set_item(s, lk, ["blocks", lst])
                    if s.get("nofactory") and key not in r:
                        r[key] = []  # objects from create() do not auto-create their lists
                    r[key].insert(pos, self.build(step["block"]))  # r[key] auto-creates the list when missing
                elif op == "snippet":
                    cur = self.get_item(s, lk)
                    if cur is not None and cur[0] != "blocks":
                        continue
                    toks = []
                    for b in step["blocks"]:
                        M.block_tokens(b, toks)
                    present = {q for q in "\"'" for c, t in toks if c == "Q" and q in t}
                    q = step["quote"] if step["quote"] not in present else ("'" if step["quote"] == '"' else '"')
                    if q in present:
                        bump("skipped.snippet_with_both_quote_characters")
                        continue
                    text = "\n".join(l for b in step["blocks"] for l in self.render(b, q))
                    pr = core.call(lambda: mf.loads(text))
                    if pr[0] != "ok":
                        bump("skipped.snippet_not_parseable")  # parsing is other properties' subject
                        continue
                    parsed = pr[2]
                    r[key] = parsed if isinstance(parsed, list) else [parsed]
                    self.set_item(s, lk, ["blocks", json.loads(json.dumps(step["blocks"]))])
                elif op == "remove_child":
                    cur = self.get_item(s, lk)
                    if cur is None or cur[0] != "blocks" or step["pos"] >= len(cur[1]):
                        continue
                    cur[1].pop(step["pos"])
                    r[key].pop(step["pos"])
                elif op == "reorder":
                    cur = self.get_item(s, lk)
                    if cur is None or cur[0] != "blocks":
                        continue
                    cur[1].reverse()
                    r[key].reverse()
                elif op == "empty_child":
                    cur = self.get_item(s, lk)
                    if cur is not None and cur[0] != "blocks":
                        continue
                    lst = cur[1] if cur else []
                    how = step["how"]
                    if s.get("nofactory") and key not in r:
                        r[key] = []
                    if how == "update_padding":
                        # a patch that speaks about the item AFTER the last one: update() fills the gap with {}
                        n = len(r[key])
                        mf.update(r, {lk: [None] * (n + 1) + [None]})
                        if len(r[key]) <= n:
                            continue  # this update() does not pad: nothing to model
                        pos = n
                        del r[key][n + 1:]
                    else:
                        pos = min(step["pos"], len(lst))
                        r[key].insert(pos, {} if how == "insert_plain" else self.CI(self.CI))
                    lst.insert(pos, {"type": None, "items": []})
                    self.set_item(s, lk, ["blocks", lst])
                elif op == "create_child":
                    cur = self.get_item(s, lk)
                    if cur is not None and cur[0] != ("blocks" if step["is_list"] else "block"):
                        continue
                    made = mf.create(step["type"], step["version"])
                    sh = self.shadow_from_created(step["type"], made)
                    if sh is None:
                        continue
                    if step["is_list"]:
                        lst = cur[1] if cur else []
                        lst.append(sh)
                        self.set_item(s, lk, ["blocks", lst])
                        if s.get("nofactory") and key not in r:
                            r[key] = []
                        r[key].append(made)
                    else:
                        self.set_item(s, lk, ["block", sh])
                        r[key] = made
                elif op == "singleton":
                    self.set_item(s, lk, ["block", json.loads(json.dumps(step["block"]))])
                    r[key] = self.build(step["block"])
                elif op == "update":
                    patch = {}
                    ok = True
                    for pk, a in step["patch"]:
                        cur = self.get_item(s, pk)
                        if cur is not None and cur[0] != "attr":
                            ok = False
                    if not ok:
                        continue
                    for pk, a in step["patch"]:
                        self.set_item(s, pk, a)
                        patch[pk.upper() if (steps % 2 and not s.get("nofactory")) else pk] = self.build_item(a)
                    mf.update(r, patch)
                elif op == "update_nested":
                    cur = self.get_item(s, lk)
                    if cur is not None and cur[0] != "attr":
                        continue
                    self.set_item(s, lk, step["item"])
                    patch = {lk: self.build_item(step["item"])}
                    for pk, pi in reversed([tuple(p_) for p_ in step["path"]]):
                        patch = {pk: patch} if pi is None else {pk: [None] * pi + [patch]}
                    mf.update(real, patch)
                elif op == "hidden_kv":
                    it = self.get_item(s, lk)
                    if it is None or it[0] != "kv":
                        continue
                    it[1]["items"].append([step["hidden"], ["attr", None, "hidden value"]])
                    it[1]["items"].append([step["shown"], ["attr", None, "v"]])
                    r[key][step["hidden"]] = "hidden value"
                    r[key][step["shown"].upper()] = "v"
                elif op == "hidden":
                    self.set_item(s, lk, ["attr", [], "hidden value", "hidden"])
                    r[key] = "hidden value"
                elif op == "read_missing":
                    if self.get_item(s, lk) is not None or s.get("nofactory"):
                        continue
                    r[key]  # the read itself creates the entry
                    if lk in M.OBJECT_LISTS:
                        self.set_item(s, lk, ["blocks", []])
                    elif lk in M.KV_BLOCKS:
                        self.set_item(s, lk, ["kv", {"type": lk, "items": []}])
                    else:
                        self.set_item(s, lk, ["unprintable", "auto-created empty dict"])
                else:
                    raise core.HarnessError(f"unknown step {step}")
                bump("op." + op)
                continue
            # ---------------- print and check
            kw = dict(PP[step["pp"] % len(PP)])
            want = M.expected(shadow)
            if want[0] == "tokens":
                # strings containing the output quote character are outside the guarantee: print with the
                # other quote, or skip the print when both quote characters occur
                present = {q for q in "\"'" for c, t in want[1] if c == "Q" and q in t}
                if kw.get("quote", '"') in present:
                    other = "'" if kw.get("quote", '"') == '"' else '"'
                    if other in present:
                        bump("skipped.both_quote_characters_in_values")
                        continue
                    kw["quote"] = other
            how = step["how"]
            real_root = real
            if step.get("as_list"):
                # several root objects, as loads() returns them for a file holding more than one: here the same one twice
                real = [real_root, real_root]
                if want[0] == "tokens":
                    want = ("tokens", list(want[1]) + list(want[1]))
            fired_before = len(fs.fired_faults)
            fs.files["/simfs/out/map.map"] = b"OLD CONTENT\n"
            rec = Recorder()
            h0 = len(fs.history)
            with simfs.mounted(fs):
                if how == "dumps":
                    got = core.call(lambda: mf.dumps(real, **kw))
                    text = got[2] if got[0] == "ok" else None
                elif how == "dump":
                    got = core.call(lambda: mf.dump(real, rec, **kw))
                    text = rec.getvalue() if got[0] == "ok" else None
                else:
                    got = core.call(lambda: mf.save(real, "/simfs/out/map.map", **kw))
                    text = fs.files["/simfs/out/map.map"].decode("utf-8") if got[0] == "ok" else None
            real = real_root
            bump("print." + how + (".list_of_roots" if step.get("as_list") else ""))
            trace.append([how, got[0], core.digest(text) if text is not None else got[1][1], len(fs.history)])
            faulted = len(fs.fired_faults) > fired_before
            if faulted:
                for f in fs.fired_faults[fired_before:]:
                    bump(f"fault.{f['op']}_schema_{f['err']}")
            sig = {"how": how, "faulted": "yes" if faulted else "no"}
            if want[0] == "refuse":
                had_unprintable = True
                bump("checked.refusals")
                if got[0] == "ok":
                    violation = viol("unprintable_value_written_as_text", step, {"key": want[1], "text": _short(text)}, key_kind=self.key_kind(shadow, want[1]), **sig)
                    break
                if rec.chunks or fs.files["/simfs/out/map.map"] != b"OLD CONTENT\n" or any(e[1] == "open" and "w" in e[3] for e in fs.history[h0:] if e[2].startswith("/simfs/out")):
                    violation = viol("refusal_left_bytes_behind", step, {"stream": rec.getvalue()[:200], "file": fs.files["/simfs/out/map.map"][:200].decode("utf-8", "replace")}, **sig)
                    break
                continue
            if got[0] != "ok":
                if faulted:
                    bump("faulted_print_raised")
                    continue  # a faulted call may fail; it must not return wrong text
                violation = viol("printable_dictionary_refused", step, got[1], **sig)
                break
            try:
                have = M.norm_tokens(M.read(text))
            except M.ReadError as e:
                violation = viol("printed_text_unreadable", step, {"error": str(e), "text": _short(text)}, **sig)
                break
            exp = M.norm_tokens(want[1])
            if have != exp:
                i = next((j for j, (a, b) in enumerate(zip(have, exp)) if a != b), min(len(have), len(exp)))
                ctx = {"at": i, "printed": have[max(0, i - 3): i + 3], "expected": exp[max(0, i - 3): i + 3]}
                kwd = next((t for c, t in reversed(exp[: i + 1]) if c == "W" and t not in ("TRUE", "FALSE", "END", "AUTO")), "?")
                cls_p = have[i][0] if i < len(have) else "-"
                cls_e = exp[i][0] if i < len(exp) else "-"
                violation = viol("printed_tokens_differ", step, ctx, keyword=kwd, printed_class=cls_p, expected_class=cls_e, **sig)
                break
            bump("checked.prints_equal_model")
        return {"violation": violation, "digest": core.digest([case["model"], case["steps"], case.get("faults"), trace]),
                "nontrivial": len(kinds - {"print"}) >= 3 or had_unprintable or bool(case.get("faults")), "stats": stats, "steps": steps}

    def key_kind(self, shadow, key):
        return "enum-keyword" if any(k.startswith("enum") for t in self.vocab.keywords.values() for k in t.get(key, [])) else "other-keyword"

    def shrink_fields(self, case):
        return [["steps"], ["faults"]]

    def shrink_candidates(self, case):
        def prune(b, path):
            for i in range(len(b["items"])):
                yield path + ["items"], b["items"][:i] + b["items"][i + 1:]
            for i, (k, it) in enumerate(b["items"]):
                if it[0] == "block":
                    yield from prune(it[1], path + ["items", i, 1, 1])
                elif it[0] == "blocks":
                    for j, c in enumerate(it[1]):
                        yield from prune(c, path + ["items", i, 1, 1, j])
        for path, val in prune(case["model"], ["model"]):
            yield core.set_path(case, path, val)

    def describe_case(self, case):
        return {"prop": "C03", "seed": case["seed"], "model_rendered": "\n".join(self.render(case["model"]))[:1500],
                "steps": [{k: v for k, v in s.items() if k not in ("block", "blocks", "item")} for s in case["steps"]][:30], "faults": case.get("faults")}


def _short(x, n=700):
    s = x if isinstance(x, str) else json.dumps(x, default=str)
    return s if len(s) <= n else s[:n] + "..."


if __name__ == "__main__":
    core.main(C03(), os.path.abspath(__file__))
