#!/venv/bin/python
"""C12 - calls are pure, history-independent and safe to run concurrently.

Three worlds, run as separate configurations:
  W1   sequential histories on REUSED Parser / MapfileToDict / PrettyPrinter /
       Validator objects; every operation's result must equal the result of the
       same operation on brand-new objects (memoised per signature per process)
  W1F  the same with a fault plan at the I/O seams (EIO / ENOENT at the k-th
       mapfile / include / schema / grammar open or read); the faulted call may
       raise, every later fault-free call must give the fresh-object result
  W2   2..16 real threads calling the module-level API under the deterministic
       scheduler (sim/simsched.py), on private and on shared inputs; every
       call's result must equal the sequential result; a deadlock among
       simulator-aware locks created by repo code is a violation
  W3   argument purity is checked inside all of them.
"""
import os
import sys

sys.path.insert(0, os.path.dirname(os.path.dirname(os.path.abspath(__file__))))
from sim import core, simsched  # noqa: E402

if __name__ == "__main__":
    core.bootstrap()

simsched.install_lock_seam((os.path.join(core.REPO, "mappyfile") + os.sep,))

import copy  # noqa: E402
import hashlib  # noqa: E402
import io  # noqa: E402
import re  # noqa: E402
import json  # noqa: E402

from sim import simfs, workload  # noqa: E402

PP_CONFIGS = [
    {},
    {"indent": 2, "quote": "'"},
    {"indent": 0, "newlinechar": " "},
    {"indent": 1, "spacer": "\t", "end_comment": True},
    {"align_values": True},
    {"separate_complex_types": True},  # may reorder its argument: purity is not asserted for this one, history independence is
]
VERSIONS = [None, 6.0, 7.0, 7.6, 8.0, 8.2, 7.58, 7.62]  # the last two: versions between releases, one either side of the 7.6 bounds
DEP_MODULES = ["lark.lexer", "lark.parsers.lalr_parser", "lark.parsers.lalr_interactive_parser",
               "lark.parsers.lalr_parser_state", "jsonref", "jsonschema.validators", "jsonschema._keywords"]
SMALL_SCHEMAS = ["style", "label", "scalebar", "legend", "web", "querymap", "reference", "cluster", "leader", "class"]



def sha(s):
    return hashlib.sha256(s.encode("utf-8", "surrogatepass")).hexdigest()[:16]


class C12(core.Check):
    pid = "C12"
    level = "exploration"
    quick_runs = 420
    thorough_runs = 200000
    quick_budget_s = 80.0
    thorough_budget_s = 1700.0
    chunk = 2
    run_timeout_s = 150.0
    isolate = True
    rule = (
        "one evaluation = one seeded run of one world. W1/W1F: a history of 5-40 operations (load via "
        "parse/parse_file/load with comments/positions/includes toggled, pprint under 5 option sets, validate at "
        "8 versions, schema export) on long-lived worker objects over 2-6 documents (corpus files <= 4 KB, "
        "schema-generated documents with comments, syntactically broken variants, include trees with missing / "
        "too-deep includes), each result compared with brand-new objects; W1F adds 1-3 I/O faults keyed by the "
        "k-th matching open/read. W2: 2-4 (thorough: up to 16) real threads x 1-4 module-level calls (loads, "
        "open, load, dumps, dump, save, validate, find, findall, findunique, findkey, create) on private and "
        "shared inputs (incl. projects in different directories writing the same relative INCLUDE name) under a "
        "seeded schedule (random walk / PCT-style priorities / starvation / fine_start / entry_sync = all threads "
        "released together at each call boundary, line by line), pre-empted at source-line granularity inside repo "
        "code (25% of runs also inside lark/jsonref/jsonschema), 20% of runs with 1-2 I/O faults armed during the "
        "threaded pass (the call that meets the fault is exempt, every other call is not), compared with the same "
        "call run alone in a pristine process. distinct = distinct digest of (case, schedule segments actually taken); "
        "non-trivial = the run contained a fault that fired, or a cross-thread switch inside repo code, or at "
        "least two operation kinds on one reused object."
    )
    assumptions = [
        "thread safety is promised for the module-level functions, not for one Parser/Validator object shared "
        "between threads; that configuration is not generated",
        "pre-emption granularity is one source line of repo code (plus optional dependency modules); under the "
        "GIL a switch inside one C-level call cannot occur",
        "dumps/dump/save are only checked for purity without separate_complex_types, validate without add_comments",
        "a faulted call may raise or return anything; only its argument purity and every LATER call are asserted",
    ]
    real_components = ["all of mappyfile", "lark", "jsonschema", "jsonref", "referencing", "codecs / io text layer",
                       "real OS threads (threading.Thread)"]
    stubbed_components = ["block layer of the file system (sim/simfs.py, in-memory)",
                          "the OS's choice of which thread runs (sim/simsched.py decides)",
                          "threading.Lock/RLock/Event/Semaphore created by repo code (none today) are simulator-aware"]

    # ------------------------------------------------------------ setup
    def setup(self):
        self.mf = core.import_repo()
        simfs.install()
        simfs.IO_HOOK = simsched.io_point
        mods = core.repo_modules()
        codes, files = simsched.code_objects_of_modules(mods)
        simsched.install(codes, files)
        self.n_code_objects = len(codes)
        self.dep_codes = None
        self.pool = workload.include_free(workload.corpus(max_bytes=4096))
        self.gen = workload.SchemaGen()
        core.FREEZE_FACTORIES = True  # an argument that comes back with another default_factory has been modified
        from mappyfile.parser import Parser
        from mappyfile.pprint import PrettyPrinter
        from mappyfile.transformer import MapfileToDict
        from mappyfile.validator import Validator

        self.Parser, self.MapfileToDict, self.PrettyPrinter, self.Validator = Parser, MapfileToDict, PrettyPrinter, Validator

    def dep_code_objects(self):
        if self.dep_codes is None:
            import importlib

            mods = []
            for name in DEP_MODULES:
                try:
                    mods.append(importlib.import_module(name))
                except ImportError:
                    pass
            self.dep_codes, _ = simsched.code_objects_of_modules(mods)
        return self.dep_codes

    # ------------------------------------------------------------ documents
    def gen_docs(self, r, n, allow_broken=True, allow_includes=False, samename=0.0, force_comments=False):
        """-> docs {id: text}, files {path: text}, paths {id: path of the document}"""
        docs, files, paths = {}, {}, {}
        use_samename = r.random() < samename
        if use_samename:
            files["/simfs/w/parts/layer.map"] = 'LAYER\n  NAME "from-cwd"\n  TYPE LINE # cwd\nEND\n'
        for i in range(n):
            if use_samename and r.random() < 0.7:
                # several projects in different directories, all writing the same relative include name
                did = f"d{i}"
                files[f"/simfs/w/p{i}/parts/layer.map"] = f'LAYER\n  NAME "layer-of-project-{i}"\n  TYPE POINT # p{i}\n  GROUP "g{i}"\nEND\n'
                docs[did] = f'MAP\n  NAME "project{i}" # root {i}\n  INCLUDE "parts/layer.map"\nEND\n'
                paths[did] = f"/simfs/w/p{i}/root.map"
                continue
            c = r.random()
            did = f"d{i}"
            if c < 0.45 and self.pool:
                path, text = self.pool[r.randrange(len(self.pool))]
            elif c < 0.85 or not allow_includes:
                root = r.choice(["map", "map", "map", "map", "layer", "layer", "class", "style", "label", "web", "legend", "scalebar"])
                text = self.gen.document(r, root, comments=0.8 if force_comments else r.choice([0.0, 0.3, 0.8]), nl=r.choice(["\n", "\n", "\r\n"]))
            else:
                kind = r.choice(["inc_ok", "inc_missing", "inc_deep"])
                base = f"/simfs/w/inc{i}"
                layer = "LAYER\n  NAME \"inc\"\n  TYPE POINT\nEND\n"
                if kind == "inc_ok":
                    files[f"{base}/layer.map"] = layer
                    text = f"MAP\n  NAME \"m\"\n  INCLUDE \"inc{i}/layer.map\"\nEND\n"
                elif kind == "inc_missing":
                    text = f"MAP\n  NAME \"m\"\n  INCLUDE \"inc{i}/nothere.map\"\nEND\n"
                else:
                    # one chain of seven files shared by all documents of the case: entering it at l0 is too
                    # deep (raises half-way down), entering it at l2..l4 is fine and reaches the same files
                    for j in range(7):
                        files[f"/simfs/w/chain/l{j}.map"] = f"INCLUDE \"chain/l{j + 1}.map\"\n" if j < 6 else layer
                    entry = r.choice([0, 0, 1, 2, 3, 4])
                    text = f"MAP\n  NAME \"m{entry}\"\n  INCLUDE \"chain/l{entry}.map\"\nEND\n"
            if r.random() < 0.3:
                # the trailers mappyfile itself writes with end_comment=True ("END # LAYER"): comments that belong to no keyword
                text = re.sub(r"(?m)^([ \t]*END)([ \t]*\r?)$", lambda m_: m_.group(1) + (" # end" if r.random() < 0.6 else "") + m_.group(2), text)
            if allow_broken and r.random() < 0.2:
                text = workload.break_text(r, text)
            docs[did] = text
        if allow_includes and r.random() < 0.3:
            # a pair of documents entering one shared include chain at a failing and at a working depth
            layer = "LAYER\n  NAME \"inc\"\n  TYPE POINT\nEND\n"
            for j in range(7):
                files[f"/simfs/w/chain/l{j}.map"] = f"INCLUDE \"chain/l{j + 1}.map\"\n" if j < 6 else layer
            for tag, entry in (("deep", r.choice([0, 1])), ("mid", r.choice([2, 3, 4]))):
                docs[f"d{len(docs)}"] = f"MAP\n  NAME \"{tag}\"\n  INCLUDE \"chain/l{entry}.map\"\nEND\n"
        if r.random() < 0.3:
            # a numeric twin: the same document with every bare integer written as a float (1 -> 1.0)
            src = [d for d in sorted(docs) if d not in paths]
            if src:
                t = docs[r.choice(src)]
                src_id = r.choice(src)
                t = docs[src_id]
                # only keyword lines holding a single number (colours and extents want integers / stay as they are)
                twin = re.sub(r'(?m)^([ \t]*[A-Za-z]+[ \t]+)(-?\d+)([ \t\r]*(?:#.*)?)$', lambda m_: m_.group(1) + m_.group(2) + ".0" + m_.group(3), t)
                if twin != t:
                    docs[f"d{len(docs)}"] = twin
                    files["__twin__"] = src_id + "," + f"d{len(docs) - 1}"
        return docs, files, paths

    # ------------------------------------------------------------ generate
    def generate(self, seed, tier):
        s = core.Streams(seed)
        k = s("knobs")
        w = k.random()
        if w < 0.35:
            return self.gen_w1(seed, s, tier, faults=False)
        if w < 0.5:
            return self.gen_w1(seed, s, tier, faults=True)
        return self.gen_w2(seed, s, tier)

    def gen_w1(self, seed, s, tier, faults):
        k, r = s("knobs"), s("ops")
        docs, files, paths = self.gen_docs(s("workload"), k.choice([2, 3, 4, 6]), allow_includes=True, samename=0.25)
        ids = sorted(docs)
        reuse = {x: k.random() < 0.85 for x in ("parser", "transformer", "printer", "validator")}
        if not any(reuse.values()):
            reuse["parser"] = True
        weights = {"load": 5, "pprint": 3, "validate": 4, "export": 1, "pprint_repair": 1}
        for x in list(weights):
            if k.random() < 0.15:
                weights[x] = 0
        if not any(weights.values()):
            weights["load"] = 1
        names = [a for a in weights if weights[a]]
        ops = []
        same_v = k.choice(VERSIONS[1:]) if k.random() < 0.5 else None  # one version throughout: first use, fault, retry
        n = k.choice([5, 8, 12, 20, 40]) if tier == "thorough" else k.choice([5, 8, 12, 16])
        for _ in range(n):
            name = r.choices(names, [weights[a] for a in names])[0]
            d = r.choice(ids)
            if name == "load":
                ops.append({"op": "load", "doc": d, "e": r.random() < 0.8, "c": r.random() < 0.5, "p": r.random() < 0.4,
                            "via": r.choice(["parse", "parse", "parse_file", "load"])})
            elif name == "pprint":
                ops.append({"op": "pprint", "doc": d, "c": r.random() < 0.5, "p": r.random() < 0.3, "pp": r.randrange(len(PP_CONFIGS)),
                            "poke": r.choice([None, None, None, "web", "metadata", "layers"])})
            elif name == "pprint_repair":
                ops.append({"op": "pprint_repair", "doc": d, "c": False, "p": r.random() < 0.3, "pp": r.randrange(len(PP_CONFIGS) - 1),
                            "where": r.choice(["root", "layer", "class"]), "key": r.choice(["web", "legend", "group", "template", "leader"])})
            elif name == "validate":
                ops.append({"op": "validate", "doc": d, "p": r.random() < 0.5, "version": same_v if same_v is not None else r.choice(VERSIONS),
                            "add_comments": r.random() < 0.12})
            else:
                ops.append({"op": "export", "schema": r.choice(SMALL_SCHEMAS), "version": r.choice(VERSIONS), "how": r.choice(["versioned", "expanded"])})
        if faults and k.random() < 0.4:
            # motif: the FIRST versioned use of a schema meets an I/O error half-way, then the same question is
            # asked again on the same Validator, about a document whose verdict depends on the version
            vdoc, vver = r.choice([('LAYER\n  NAME "v"\n  TYPE POINT\n  CONNECTIONOPTIONS\n    "a" "b"\n  END\nEND\n', 7.0),
                                   ('STYLE\n  ANTIALIAS TRUE\n  GAP 2\nEND\n', 8.0),
                                   ('CLASS\n  NAME "c"\n  LABEL\n    SIZE 8\n    ENCODING "utf-8"\n  END\nEND\n', 8.2)])
            vid = f"d{len(docs)}"
            docs[vid] = vdoc
            pre = [{"op": "validate", "doc": vid, "p": False, "version": vver} for _ in range(3)]
            ops[0:0] = pre
            reuse["validator"] = True
        if k.random() < 0.25:
            # motif: a syntax error on a reused comment-keeping Parser, then a comment-rich document on the same Parser
            bid, cid = f"d{len(docs)}", f"d{len(docs) + 1}"
            good = self.gen.document(r, r.choice(["map", "layer", "class"]), comments=0.9)
            docs[bid] = workload.break_text(r, self.gen.document(r, "layer", comments=0.5))
            docs[cid] = good
            e_ = r.random() < 0.5
            pre = [{"op": "load", "doc": x_, "e": e_, "c": True, "p": r.random() < 0.3, "via": "parse"} for x_ in (bid, cid, bid, cid)[: r.choice([2, 4])]]
            at = r.randint(0, len(ops))
            ops[at:at] = pre
            reuse["parser"] = True
        if k.random() < 0.2:
            # motif: documents that stop in mid-statement (the lexer's last token is a keyword), each followed on the same
            # Parser by a small document of another kind - whatever a Parser remembers from token to token must not
            # survive from one parse into the next
            n0 = len(docs)
            pairs = []
            for j in range(8):
                cut = r.choice(["LAYER", "MAP", "CLASS", "STYLE", "SYMBOL", "LABEL"]) + "\n  " + r.choice(["NAME", "SYMBOL", "TYPE", "GRID", "STYLE", "TEXT", "POINTS", "PATTERN"])
                nxt = r.choice(['GRID\n  LABELFORMAT "DD"\nEND\n', 'SYMBOL\n  NAME "s"\n  TYPE ELLIPSE\n  POINTS\n    1 1\n  END\nEND\n', 'STYLE\n  SYMBOL "s"\nEND\n',
                                'NAME "x"\n', 'POINTS\n  1 1\nEND\n', 'PATTERN\n  1 2\nEND\n', 'LABEL\n  TEXT "t"\nEND\n', 'LAYER\n  NAME "l"\n  TYPE POINT\nEND\n',
                                'CLASS\n  NAME "c"\nEND\n', 'LEGEND\n  STATUS ON\nEND\n'])
                docs[f"d{n0 + 2 * j}"], docs[f"d{n0 + 2 * j + 1}"] = cut, nxt
                pairs += [f"d{n0 + 2 * j}", f"d{n0 + 2 * j + 1}"]
            c_ = r.random() < 0.5
            pre = [{"op": "load", "doc": x_, "e": True, "c": c_, "p": False, "via": "parse"} for x_ in pairs]
            at = r.randint(0, len(ops))
            ops[at:at] = pre
            reuse["parser"] = True
        if k.random() < 0.2:
            # motif: a document whose INCLUDE file is in a legacy encoding (not valid UTF-8: the load fails), then a
            # document whose INCLUDE file is UTF-8 with non-ASCII text, through the same Parser
            aid, bid = f"d{len(docs)}", f"d{len(docs) + 1}"
            files["/simfs/w/legacy/l1.map"] = {"latin1": 'LAYER\n  NAME "stra\xdfe"\n  TYPE LINE\nEND\n'}
            files["/simfs/w/utf/l2.map"] = 'LAYER\n  NAME "straße 中文 é" # ü\n  TYPE POINT\nEND\n'
            docs[aid] = 'MAP\n  NAME "legacy"\n  INCLUDE "legacy/l1.map"\nEND\n'
            docs[bid] = 'MAP\n  NAME "modern"\n  INCLUDE "utf/l2.map"\nEND\n'
            c_ = r.random() < 0.5
            pre = [{"op": "load", "doc": x_, "e": True, "c": c_, "p": False, "via": r.choice(["parse", "load", "parse_file"])} for x_ in (aid, bid, aid, bid)[: r.choice([2, 4])]]
            at = r.randint(0, len(ops))
            ops[at:at] = pre
            reuse["parser"] = True
        if k.random() < 0.2:
            # motif: one call asks the reused Validator to annotate its argument (add_comments=True); the following
            # ordinary calls on invalid documents must leave theirs alone again
            bid = f"d{len(docs)}"
            docs[bid] = 'LAYER\n  NAME "invalid"\n  TYPE POINT\n  MINSCALEDENOM -1\n  CLASS\n    MAXSIZE -5\n  END\nEND\n'
            pre = [{"op": "validate", "doc": bid, "p": r.random() < 0.5, "version": None, "add_comments": True},
                   {"op": "validate", "doc": bid, "p": r.random() < 0.5, "version": None, "add_comments": False},
                   {"op": "validate", "doc": bid, "p": False, "version": r.choice(VERSIONS), "add_comments": False}]
            at = r.randint(0, len(ops))
            ops[at:at] = pre
            reuse["validator"] = True
        tw = files.pop("__twin__", None)
        if tw:
            # print the document and its numeric twin with the same reused printer, in both orders
            a_, b_ = tw.split(",")
            ppi = r.randrange(len(PP_CONFIGS))
            pair = [{"op": "pprint", "doc": x_, "c": False, "p": False, "pp": ppi, "poke": None} for x_ in r.sample([a_, b_], 2)]
            at = r.randint(0, len(ops))
            ops[at:at] = pair
        fl = []
        if faults:
            f = s("faults")
            for _ in range(f.choice([1, 1, 2, 3])):
                cls = f.choice(["schema", "schema", "schema", "simfs", "grammar"])
                fl.append({"op": f.choice(["open", "open", "read"]), "cls": cls, "k": f.choice([1, 1, 2, 2, 3, 4, 5, 8, 13, 21, 34]),
                           "err": f.choice(["EIO", "ENOENT", "EACCES"])})
        # documents that no generated call uses: the end-of-run purity sweep prints and validates them on the run's
        # (by then well used) workers - cheap, so there can be many
        sw = s("sweepdocs")
        for _ in range(sw.choice([0, 4, 8])):
            docs[f"d{len(docs)}"] = self.gen.document(sw, sw.choice(["map", "map", "layer", "class", "legend"]),
                                                      comments=sw.choice([0.0, 0.5]), nl=sw.choice(["\n", "\r\n"]))
        return {"prop": "C12", "world": "W1F" if faults else "W1", "seed": seed, "docs": docs, "files": files, "paths": paths,
                "locale_encoding": k.choice(["utf-8", "utf-8", "cp1252"]),
                "reuse": reuse, "ops": ops, "faults": fl}

    def gen_w2(self, seed, s, tier):
        k, r = s("knobs"), s("ops")
        same_kw = {"include_comments": k.random() < 0.7, "include_position": k.random() < 0.4, "expand_includes": True} if k.random() < 0.5 else None
        docs, files, paths = self.gen_docs(s("workload"), k.choice([1, 2, 3]), allow_includes=False, samename=0.2,
                                           force_comments=bool(same_kw and same_kw["include_comments"]))
        files.pop("__twin__", None)
        ids = sorted(docs)
        nthreads = k.choice([2, 2, 3, 3, 4]) if tier == "quick" else k.choice([2, 3, 4, 4, 6, 8, 12, 16])
        dicts = [{"doc": d, "kw": {"include_comments": k.random() < 0.4, "include_position": k.random() < 0.3}} for d in ids]
        weights = {"loads": 5, "open": 1, "load": 1, "dumps": 4, "dump": 1, "save": 1, "validate": 4,
                   "find": 1, "findall": 1, "findunique": 1, "findkey": 1, "create": 1}
        for x in list(weights):
            if k.random() < 0.25:
                weights[x] = 0
        if not any(weights.values()):
            weights["loads"] = weights["validate"] = 1
        if paths:
            weights["open"] = 10  # projects in different directories with identical relative INCLUDE names: open them concurrently
        names = [a for a in weights if weights[a]]
        share_bias = k.choice([0.2, 0.6, 1.0])
        same_version = k.choice(VERSIONS[1:]) if k.random() < 0.5 else None
        shared_save = k.random() < 0.35  # every save() of the run writes one and the same path
        if shared_save and weights.get("save"):
            weights["save"] = 6
        threads = []
        for t in range(nthreads):
            calls = []
            for _ in range((k.choice([1, 1, 2, 2, 3]) if tier == "quick" else k.choice([1, 1, 2, 3, 4])) if nthreads <= 8 else k.choice([1, 2])):
                fn = r.choices(names, [weights[a] for a in names])[0]
                di = 0 if r.random() < share_bias else r.randrange(len(ids))
                if paths and fn == "open":
                    di = (t + len(calls)) % len(ids)
                if fn in ("loads", "open", "load"):
                    kw = {"include_comments": r.random() < 0.5, "include_position": r.random() < 0.4, "expand_includes": r.random() < 0.8}
                    kw = dict(same_kw) if same_kw else kw
                    if r.random() < 0.5:
                        # the way most callers write it: options left at their defaults are not mentioned
                        kw = {k_: v_ for k_, v_ in kw.items() if v_ != {"include_comments": False, "include_position": False, "expand_includes": True}[k_]}
                    calls.append({"fn": fn, "doc": ids[di], "kw": kw})
                elif fn in ("dumps", "dump", "save"):
                    calls.append({"fn": fn, "d": di, "kw": dict(PP_CONFIGS[r.randrange(len(PP_CONFIGS) - 1)])})  # (never the reordering option on shared inputs)
                    if fn == "save" and shared_save:
                        calls[-1]["shared_path"] = True
                elif fn == "validate":
                    calls.append({"fn": fn, "d": di, "version": same_version if same_version is not None else r.choice(VERSIONS)})
                elif fn in ("find", "findall"):
                    calls.append({"fn": fn, "d": di, "list": r.choice(["layers", "classes", "styles"]), "key": r.choice(["name", "NAME", "type", "group", "status", "metadata.wms_title", "metadata", "classes.0.name", "web/metadata", "name*"]),
                                  "from_item": r.randrange(4)})
                elif fn == "findunique":
                    calls.append({"fn": fn, "d": di, "list": r.choice(["layers", "classes"]), "key": r.choice(["name", "type", "group", "metadata.wms_title"])})
                elif fn == "findkey":
                    calls.append({"fn": fn, "d": di, "path": r.choice([["layers", 0], ["layers", 0, "classes", 0], ["web"], ["name"], []])})
                else:
                    calls.append({"fn": "create", "type": r.choice(["map", "layer", "class", "style", "label", "symbol", "web"]), "version": r.choice(VERSIONS)})
            if paths and calls and k.random() < 0.7:
                # every thread starts by opening "its" project
                calls[0] = {"fn": "open", "doc": ids[t % len(ids)], "kw": dict(same_kw) if same_kw else
                            {"include_comments": False, "include_position": False, "expand_includes": True}}
            threads.append(calls)
        sk = k.choice(["random", "random", "pct", "pct", "starve", "fine_start", "entry_sync", "entry_sync", "io_sync"])
        if shared_save or paths:
            sk = k.choice([sk, "io_sync"])  # races through files: let the order of file-system operations decide
        if paths:
            sk = k.choice([sk, "fine_start", "io_sync"])  # projects opened side by side: interleave them while the calls are young
        sched = {"kind": sk, "seed": s("schedule").randrange(1 << 30)}
        if sk == "pct":
            sched["d"] = k.choice([1, 2, 3])
        if sk == "starve":
            sched["victim"] = k.randrange(nthreads)
            sched["stall_frac"] = k.choice([0.3, 0.6, 0.9])
        if sk == "fine_start":
            sched["fine_steps"] = k.choice([100, 400, 2000])
        if sk == "entry_sync":
            sched["fine_steps"] = k.choice([30, 100, 400])
        if sk == "random":
            sched["budgets"] = k.choice([[1, 2, 3, 5, 8, 13, 50, 200, 1000], [1, 1, 2, 3], [1, 2, 3, 5, 8, 13], [5, 20, 80], [50, 200, 1000, 5000], [1, 5, 1000]])
        if k.random() < 0.15:
            # motif: every thread parses its OWN comment-rich document with comments kept, finely interleaved -
            # anything the parsers share (buffers, caches) shows up as foreign or missing comments
            w_ = s("workload")
            docs = {f"d{i}": self.gen.document(w_, w_.choice(["map", "layer", "class"]), comments=0.9) for i in range(nthreads)}
            files, paths = {}, {}
            dicts = [{"doc": "d0", "kw": {}}]
            threads = [[{"fn": r.choice(["loads", "loads", "load"]), "doc": f"d{t}", "kw": {"include_comments": True}}
                        for _ in range(k.choice([1, 2]))] for t in range(nthreads)]
            sched = {"kind": k.choice(["random", "entry_sync", "fine_start"]), "seed": s("schedule").randrange(1 << 30)}
            if sched["kind"] == "random":
                sched["budgets"] = k.choice([[1, 1, 2, 3], [1, 2, 3, 5, 8, 13], [5, 20, 80]])
            else:
                sched["fine_steps"] = k.choice([100, 400, 2000])
        elif k.random() < 0.15:
            # motif: the first thing every thread does is validate against ONE version nobody has asked for yet in this
            # process - whatever is built lazily on first use (schema expansion, version filtering) is built under
            # contention, pre-empted at its file reads or line by line
            v_ = k.choice(VERSIONS[1:])
            for t, calls in enumerate(threads):
                first = [{"fn": "validate", "d": 0 if r.random() < 0.7 else r.randrange(len(ids)), "version": v_} for _ in range(k.choice([1, 1, 2]))]
                threads[t] = first + calls[: k.choice([0, 0, 1])]
            sched = {"kind": k.choice(["io_sync", "io_sync", "random", "entry_sync"]), "seed": s("schedule").randrange(1 << 30)}
            if sched["kind"] == "random":
                sched["budgets"] = k.choice([[1, 2, 3, 5, 8, 13, 50, 200, 1000], [5, 20, 80], [50, 200, 1000, 5000]])
            if sched["kind"] == "entry_sync":
                sched["fine_steps"] = k.choice([100, 400])
        fl = []
        if k.random() < 0.2:
            f = s("faults")
            for _ in range(f.choice([1, 1, 2])):
                fl.append({"op": f.choice(["open", "read"]), "cls": f.choice(["schema", "schema", "simfs", "grammar"]),
                           "k": f.choice([1, 2, 3, 5, 8, 13, 21, 34]), "err": f.choice(["EIO", "ENOENT"])})
        return {"prop": "C12", "world": "W2", "seed": seed, "docs": docs, "files": files, "paths": paths, "dicts": dicts,
                "locale_encoding": k.choice(["utf-8", "utf-8", "cp1252"]),
                "threads": threads, "schedule": sched, "deps": k.random() < 0.25, "faults": fl}

    # ------------------------------------------------------------ helpers
    def doc_path(self, case, did):
        return case.get("paths", {}).get(did) or f"/simfs/w/{did}.map"

    def base_files(self, case):
        files = {p_: (t_["latin1"].encode("latin-1") if isinstance(t_, dict) else t_) for p_, t_ in case.get("files", {}).items()}
        for did, text in case["docs"].items():
            files[self.doc_path(case, did)] = text
        return files

    def viol(self, inv, kind, detail, **sig):
        return {"invariant": inv, "kind": kind, "sig": dict(sig, world=sig.get("world", "")), "detail": detail}

    # ------------------------------------------------------------ W1
    def do_load(self, parser, xform, text, path, via):
        if via == "parse":
            tree = parser.parse(text)
        elif via == "parse_file":
            tree = parser.parse_file(path)
        else:
            with open(path, "r", encoding="utf-8", newline="") as fp:
                tree = parser.load(fp)
        return xform.transform(tree)

    def fresh_dict(self, case, did, c, p):
        """loads() of one document with brand-new workers (includes not expanded)."""
        return self.do_load(self.Parser(expand_includes=False, include_comments=c),
                            self.MapfileToDict(include_position=p, include_comments=c), case["docs"][did], self.doc_path(case, did), "parse")

    def poke(self, d, key):
        if key:
            try:
                (d[0] if isinstance(d, list) else d)[key]
            except Exception:  # noqa: BLE001
                pass

    def fail_then_repair(self, printer, d, op, second_printer=None):
        """reading a missing key leaves an empty dict that cannot be printed; the caller notices, deletes it from the
        SAME dictionary and prints again with the same printer"""
        root = d[0] if isinstance(d, list) else d
        target = root
        try:
            if op["where"] in ("layer", "class") and root.get("layers"):
                target = root["layers"][0]
                if op["where"] == "class" and target.get("classes"):
                    target = target["classes"][0]
        except Exception:  # noqa: BLE001
            target = root
        had = op["key"] in target
        if not had:
            target[op["key"]]  # auto-creates {}
        first = core.call(lambda: printer.pprint(d))
        if not had:
            try:
                del target[op["key"]]
            except KeyError:
                pass
        second = core.call(lambda: (second_printer or printer).pprint(d))
        return [[first[0], first[1] if first[0] == "ok" else first[1][1]], [second[0], second[1]]]

    def export(self, v, op):
        if op["how"] == "versioned":
            sch = v.get_versioned_schema(op["version"], op["schema"])
        else:
            # get_expanded_schema(name, version) hands out the per-version working copy that
            # get_versioned_schema prunes in place - an internal cache, not a result the property
            # speaks of; only the version-less expansion is a public answer that history must not change
            sch = v.get_expanded_schema(op["schema"])
        return hashlib.sha256(json.dumps(sch, sort_keys=True, indent=1).encode()).hexdigest()

    def fresh_op(self, case, op):
        """The reference result of one operation: brand-new worker objects in a
        pristine process (called through core.in_fork), fault-free file system."""
        fs = simfs.SimFS(self.base_files(case), cwd="/simfs/w", default_encoding=case.get("locale_encoding", "utf-8"))
        name = op["op"]
        with simfs.mounted(fs):
            if name == "load":
                if op["doc"] not in case["docs"]:
                    return ["skip", None]
                r = core.call(lambda: self.do_load(self.Parser(expand_includes=op["e"], include_comments=op["c"]),
                                                   self.MapfileToDict(include_position=op["p"], include_comments=op["c"]),
                                                   case["docs"][op["doc"]], self.doc_path(case, op["doc"]), op["via"]))
                return [r[0], r[1]]
            if name == "export":
                r = core.call(lambda: self.export(self.Validator(), op))
                return [r[0], r[1]]
            if op["doc"] not in case["docs"]:
                return ["skip", None]
            dr = core.call(lambda: self.fresh_dict(case, op["doc"], op.get("c", False), op["p"]))
            if dr[0] != "ok":
                return ["skip", None]
            d = dr[2]
            if name == "pprint_repair":
                r = core.call(lambda: self.fail_then_repair(self.PrettyPrinter(**PP_CONFIGS[op["pp"]]), d, op,
                                                            second_printer=self.PrettyPrinter(**PP_CONFIGS[op["pp"]])))
            elif name == "pprint":
                self.poke(d, op.get("poke"))
                r = core.call(lambda: self.PrettyPrinter(**PP_CONFIGS[op["pp"]]).pprint(d))
            else:
                root = (d[0] if isinstance(d, list) else d).get("__type__", "map")
                ac = {"add_comments": True} if op.get("add_comments") else {}  # an ordinary call does not mention the option at all
                r = core.call(lambda: self.Validator().validate(d, schema_name=root, version=op["version"], **ac))
            return [r[0], r[1]]

    def exec_w1(self, case):
        stats = {}
        steps = 0

        def bump(k, n=1):
            stats[k] = stats.get(k, 0) + n

        world = case["world"]
        reuse = case["reuse"]
        # reference results first, each from its own pristine fork of this (so far idle) process
        expected = [core.in_fork(lambda op=op: self.fresh_op(case, op)) for op in case["ops"]]
        parsers, xforms, printers = {}, {}, {}
        validator = [None]
        enc = case.get("locale_encoding", "utf-8")
        fs = simfs.SimFS(self.base_files(case), cwd="/simfs/w", faults=case.get("faults", []), default_encoding=enc)
        clean = simfs.SimFS(self.base_files(case), cwd="/simfs/w", default_encoding=enc)
        violation = None
        pred = {}
        last_kind = {}
        nontrivial = False
        kinds_on_reused = {}
        dict_memo = {}
        handed_out = []  # (op index, raw result object, its frozen form when it was returned)

        def get_parser(e, c):
            if not reuse["parser"]:
                return self.Parser(expand_includes=e, include_comments=c)
            if (e, c) not in parsers:
                parsers[(e, c)] = self.Parser(expand_includes=e, include_comments=c)
            return parsers[(e, c)]

        def get_xform(p, c):
            if not reuse["transformer"]:
                return self.MapfileToDict(include_position=p, include_comments=c)
            if (p, c) not in xforms:
                xforms[(p, c)] = self.MapfileToDict(include_position=p, include_comments=c)
            return xforms[(p, c)]

        def get_printer(i):
            if not reuse["printer"]:
                return self.PrettyPrinter(**PP_CONFIGS[i])
            if i not in printers:
                printers[i] = self.PrettyPrinter(**PP_CONFIGS[i])
            return printers[i]

        def get_validator():
            if not reuse["validator"]:
                return self.Validator()
            if validator[0] is None:
                validator[0] = self.Validator()
            return validator[0]

        def input_dict(did, c, p):
            key = (did, c, p)
            if key not in dict_memo:
                with simfs.mounted(clean):
                    r = core.call(lambda: self.fresh_dict(case, did, c, p))
                dict_memo[key] = r[2] if r[0] == "ok" else None
            return copy.deepcopy(dict_memo[key])

        for idx, op in enumerate(case["ops"]):
            steps += 1
            name = op["op"]
            exp = expected[idx]
            if exp[0] == "skip":
                bump("skipped.unparseable_input")
                continue
            fired_before = len(fs.fired_faults)
            arg_before = arg_obj = None
            if name == "load":
                text = case["docs"][op["doc"]]
                with simfs.mounted(fs):
                    try:
                        pz, xf = get_parser(op["e"], op["c"]), get_xform(op["p"], op["c"])
                        got = core.call(lambda: self.do_load(pz, xf, text, self.doc_path(case, op["doc"]), op["via"]))
                    except Exception as e:  # constructing a worker hit a fault
                        got = ("exc", core.exc_repr(e), e)
                wk = "parser"
            elif name == "pprint":
                d = input_dict(op["doc"], op["c"], op["p"])
                if d is None:
                    violation = self.viol("input_differs_from_pristine", name, {"op": op, "index": idx}, world=world, op=name)
                    break
                self.poke(d, op.get("poke"))
                if not PP_CONFIGS[op["pp"]].get("separate_complex_types"):
                    arg_obj, arg_before = d, core.freeze(d)
                with simfs.mounted(fs):
                    try:
                        pr = get_printer(op["pp"])
                        got = core.call(lambda: pr.pprint(d))
                    except Exception as e:
                        got = ("exc", core.exc_repr(e), e)
                wk = "printer"
            elif name == "pprint_repair":
                d = input_dict(op["doc"], False, op["p"])
                if d is None:
                    violation = self.viol("input_differs_from_pristine", name, {"op": op, "index": idx}, world=world, op=name)
                    break
                with simfs.mounted(fs):
                    try:
                        pr = get_printer(op["pp"])
                        got = core.call(lambda: self.fail_then_repair(pr, d, op))
                    except Exception as e:
                        got = ("exc", core.exc_repr(e), e)
                wk = "printer"
            elif name == "validate":
                d = input_dict(op["doc"], False, op["p"])
                if d is None:
                    violation = self.viol("input_differs_from_pristine", name, {"op": op, "index": idx}, world=world, op=name)
                    break
                root = (d[0] if isinstance(d, list) else d).get("__type__", "map")
                if not op.get("add_comments"):
                    arg_obj, arg_before = d, core.freeze(d)  # (with add_comments=True the call may annotate its argument)
                with simfs.mounted(fs):
                    v = get_validator()
                    ac = {"add_comments": True} if op.get("add_comments") else {}
                    got = core.call(lambda: v.validate(d, schema_name=root, version=op["version"], **ac))
                wk = "validator"
            elif name == "export":
                with simfs.mounted(fs):
                    v = get_validator()
                    got = core.call(lambda: self.export(v, op))
                wk = "validator"
            else:
                raise core.HarnessError(f"unknown op {op}")
            bump("op." + name)
            faulted = len(fs.fired_faults) > fired_before
            if faulted:
                for f in fs.fired_faults[fired_before:]:
                    bump(f"fault.{f['op']}_{f['cls']}_{f['err']}")
                nontrivial = True
            pred.setdefault(wk, set()).add(last_kind.get(wk, "first") + ("!" if last_kind.get(wk + "_failed") else ""))
            last_kind[wk] = name
            last_kind[wk + "_failed"] = got[0] == "exc"
            kinds_on_reused.setdefault(wk, set()).add(name + str(op.get("version", "")) + str(op.get("c", "")))
            if arg_obj is not None and core.freeze(arg_obj) != arg_before:
                violation = self.viol("argument_mutated", name, {"op": op, "index": idx}, world=world, op=name)
                break
            if faulted:
                bump("faulted_calls")
                continue  # the faulted call itself may raise or return anything
            if got[0] == "ok" and isinstance(got[2], (list, dict)):
                handed_out.append((idx, name, got[2], got[1]))
            if [got[0], got[1]] != exp:
                after_fault = bool(fs.fired_faults)
                violation = self.viol(
                    "reused_differs_from_fresh" if not after_fault else "not_recovered_after_fault", name,
                    {"op": op, "index": idx, "reused": _short(got[1]), "fresh": _short(exp[1]),
                     "faults_fired": fs.fired_faults}, world=world, op=name)
                break
        if not violation:
            # purity sweep: every document of the run, printed (never with the reordering option) and validated once
            # more on the run's workers, must come back exactly as it went in - key order included
            plain = [i for i, c in enumerate(PP_CONFIGS) if not c.get("separate_complex_types")]
            for n_, did in enumerate(sorted(case["docs"])):
                d = input_dict(did, n_ % 2 == 1, n_ % 3 == 0)
                if d is None:
                    continue
                before = core.freeze(d)
                with simfs.mounted(clean):
                    core.call(lambda: get_printer(plain[n_ % len(plain)]).pprint(d))
                    after_print = core.freeze(d)
                    root = (d[0] if isinstance(d, list) else d).get("__type__", "map")
                    core.call(lambda: get_validator().validate(d, schema_name=root, version=VERSIONS[n_ % len(VERSIONS)]))
                bump("sweep.docs")
                steps += 2
                if after_print != before or core.freeze(d) != before:
                    violation = self.viol("argument_mutated", "pprint" if after_print != before else "validate",
                                          {"doc": did, "sweep": True, "before": _short(before), "after": _short(core.freeze(d))},
                                          world=world, op="sweep")
                    break
        if not violation:
            # a result belongs to the caller: later calls on the same worker must not change it
            for idx0, name0, raw0, frozen0 in handed_out:
                if core.freeze(raw0) != frozen0:
                    violation = self.viol("earlier_result_changed_by_later_call", name0,
                                          {"index": idx0, "then": _short(frozen0), "now": _short(core.freeze(raw0))}, world=world, op=name0)
                    break
        if any(len(v) >= 2 for v in kinds_on_reused.values()):
            nontrivial = True
        cover = [f"{wk}<-{p}" for wk, ps in pred.items() for p in ps]
        return {"violation": violation, "digest": core.digest([case["world"], case["docs"], case["ops"], case.get("faults")]),
                "nontrivial": nontrivial, "stats": stats, "steps": steps, "cover": cover}

    # ------------------------------------------------------------ W2
    def do_call(self, call, ctx, tag):
        mf = self.mf
        fn = call["fn"]
        D = ctx["dicts"]
        if fn == "loads":
            return core.call(lambda: mf.loads(ctx["docs"][call["doc"]], **call["kw"]))[:2]
        if fn == "open":
            return core.call(lambda: mf.open(ctx["paths"].get(call["doc"]) or f"/simfs/w/{call['doc']}.map", **call["kw"]))[:2]
        if fn == "load":
            return core.call(lambda: mf.load(io.StringIO(ctx["docs"][call["doc"]]), **call["kw"]))[:2]
        if fn == "create":
            return core.call(lambda: mf.create(call["type"], call["version"]))[:2]
        d = D[call["d"] % len(D)] if D else None
        if d is None:
            return ("skip", None)
        if fn == "dumps":
            return core.call(lambda: mf.dumps(d, **call["kw"]))[:2]
        if fn == "dump":
            buf = io.StringIO()
            r = core.call(lambda: mf.dump(d, buf, **call["kw"]))
            return (r[0], [r[1], buf.getvalue()])
        if fn == "save":
            path = "/simfs/out/shared.map" if call.get("shared_path") else f"/simfs/out/{tag}.map"
            r = core.call(lambda: mf.save(d, path, **call["kw"]))
            data = simfs.ACTIVE.files.get(path)
            ret_ok = r[1] == path if r[0] == "ok" else r[1]  # save() returns the path it was given
            if call.get("shared_path"):
                # several threads write this path: what it holds right now is another thread's business;
                # the content is checked once, after all threads have finished
                return (r[0], [ret_ok, "<shared path>"])
            return (r[0], [ret_ok, None if data is None else data.decode("utf-8", "replace")])
        if fn == "validate":
            return core.call(lambda: mf.validate(d, version=call["version"]))[:2]
        root = d[0] if isinstance(d, list) else d
        if fn == "findkey":
            x = root
            for p in call["path"]:
                try:
                    if isinstance(x, dict) and p not in x:
                        return ("skip", None)
                    x = x[p]
                except Exception:  # noqa: BLE001
                    return ("skip", None)
            return core.call(lambda: mf.findkey(root, *call["path"]))[:2]
        lst = root.get(call["list"]) if isinstance(root, dict) else None
        if call["list"] != "layers" and isinstance(root, dict):
            ly = root.get("layers") or []
            if ly and isinstance(ly[0], dict):
                lst = ly[0].get("classes") if call["list"] == "classes" else ((ly[0].get("classes") or [{}])[0].get("styles"))
        if not isinstance(lst, list) or not lst:
            return ("skip", None)
        if fn == "findunique":
            return core.call(lambda: mf.findunique(lst, call["key"]))[:2]
        item = lst[call["from_item"] % len(lst)]
        value = item.get(call["key"].lower(), "zzz") if isinstance(item, dict) else "zzz"
        if fn == "find":
            r = core.call(lambda: mf.find(lst, call["key"], value))
        else:
            r = core.call(lambda: mf.findall(lst, call["key"], value))
        return r[:2]

    def exec_w2(self, case):
        import base64
        import pickle

        stats = {}

        def bump(k, n=1):
            stats[k] = stats.get(k, 0) + n

        fs = simfs.SimFS(self.base_files(case), cwd="/simfs/w", default_encoding=case.get("locale_encoding", "utf-8"))
        fs.mkdir("/simfs/out")
        mf = self.mf
        violation = None
        deps = case.get("deps") and os.environ.get("VERIF_NO_DEPS") != "1"
        sched = None
        with simfs.mounted(fs):
            # ---- shared input dictionaries: built in a pristine fork, shipped back as pickles,
            #      so that this process has executed no library call before the threads start
            def build_inputs():
                out = []
                for spec in case["dicts"]:
                    text = case["docs"].get(spec["doc"])
                    r = core.call(lambda: mf.loads(text, **spec["kw"])) if text is not None else ("exc", None, None)
                    out.append(base64.b64encode(pickle.dumps(r[2])).decode() if r[0] == "ok" else None)
                return out

            dicts = [pickle.loads(base64.b64decode(b)) if b else None for b in core.in_fork(build_inputs)]
            ctx = {"docs": case["docs"], "dicts": dicts, "paths": case.get("paths", {})}
            frozen_inputs = [core.freeze(d) for d in dicts]

            # ---- reference results: every call alone, in its own pristine fork
            def one(c, tag):
                simsched.COUNT[0], simsched.COUNT[1] = 0, True
                r = self.do_call(c, ctx, tag)
                simsched.COUNT[1] = False
                return [list(r), [core.freeze(d) for d in dicts] != frozen_inputs, simsched.COUNT[0]]

            expected = []
            est = 0
            memo = {}  # identical calls (same function, same arguments) have one reference result
            for t, calls in enumerate(case["threads"]):
                row = []
                for j, c in enumerate(calls):
                    ck = json.dumps(c, sort_keys=True)
                    if ck not in memo:
                        memo[ck] = core.in_fork(lambda c=c, t=t, j=j: one(c, f"t{t}c{j}"))
                    res, mutated, n = memo[ck]
                    est += n
                    bump("op." + c["fn"])
                    if mutated and not violation:
                        violation = self.viol("argument_mutated", c["fn"], {"call": c, "thread": t, "phase": "alone"}, world="W2", op=c["fn"])
                    row.append(res)
                expected.append(row)
            est = max(100, est) * (15 if deps else 1)  # dependency lines are not counted by the forks
            if violation:
                return {"violation": violation, "digest": core.digest([case["docs"], case["threads"]]), "nontrivial": True,
                        "stats": stats, "steps": est}
            # ---- threaded pass under the simulator, first library calls of this process
            spec = dict(case["schedule"])
            if spec.get("kind") == "pct":
                spec["est_steps"] = est
            if spec.get("kind") == "starve":
                spec["stall"] = int(est * spec.get("stall_frac", 0.5))
            sched = simsched.Scheduler(spec, max_steps=(est * 8 + 500000) if not deps else 200_000_000, wall_timeout=self.run_timeout_s - 30)

            import _thread

            faulted_calls = set()

            def body(t, calls):
                def f():
                    out = []
                    for j, c in enumerate(calls):
                        simsched.call_boundary()
                        n0 = len(fs.fired_by_thread.get(_thread.get_ident(), ()))
                        out.append(list(self.do_call(c, ctx, f"t{t}c{j}")))
                        if len(fs.fired_by_thread.get(_thread.get_ident(), ())) > n0:
                            faulted_calls.add((t, j))  # this call itself met an injected I/O error: it may fail
                    return out
                return f

            # the fault plan is armed only now: reference results above were computed fault-free
            fs.faults = [dict(f_, _n=0, _done=False) for f_ in case.get("faults", [])]

            if deps:
                simsched.install(self.dep_code_objects(), ())
            try:
                results = sched.run([body(t, calls) for t, calls in enumerate(case["threads"])])
            except TimeoutError as e:
                raise core.HarnessError(str(e))
            finally:
                if deps:
                    simsched.uninstall(self.dep_code_objects())
            for f_ in fs.fired_faults:
                bump(f"fault.threads.{f_['op']}_{f_['cls']}_{f_['err']}")
            bump("sched." + spec.get("kind", "random"))
            bump("sched.switches", sched.switches)
            bump("threads", len(case["threads"]))
            if deps:
                bump("sched.deps_instrumented_runs")
            if sched.aborted == "deadlock":
                violation = self.viol("deadlock", "threads", sched.deadlock, world="W2", op="lock")
            elif sched.aborted:
                raise core.HarnessError(f"simsched aborted: {sched.aborted}")
            else:
                for t, (res, exp) in enumerate(zip(results, expected)):
                    if res[0] != "ok":
                        violation = self.viol("thread_crashed", "threads", {"thread": t, "error": core.exc_repr(res[1]) if res[1] else res[0]}, world="W2", op="thread")
                        break
                    for j, (g, e) in enumerate(zip(res[1], exp)):
                        if (t, j) in faulted_calls:
                            bump("faulted_calls")
                            continue
                        if g != e:
                            c = case["threads"][t][j]
                            violation = self.viol("threaded_differs_from_sequential", c["fn"],
                                                  {"thread": t, "call": c, "threaded": _short(g), "alone": _short(e)},
                                                  world="W2", op=c["fn"])
                            break
                    if violation:
                        break
                if not violation and [core.freeze(d) for d in dicts] != frozen_inputs:
                    violation = self.viol("argument_mutated", "threads", {"phase": "threaded"}, world="W2", op="thread")
                shared_calls = [c for calls in case["threads"] for c in calls if c["fn"] == "save" and c.get("shared_path")]
                if not violation and shared_calls and not fs.fired_faults:
                    def texts():
                        out = []
                        for c in shared_calls:
                            d_ = dicts[c["d"] % len(dicts)] if dicts else None
                            r_ = core.call(lambda: mf.dumps(d_, **c["kw"])) if d_ is not None else ("exc",)
                            if r_[0] == "ok":
                                out.append(r_[2])
                        return out

                    allowed = core.in_fork(texts)
                    have = fs.files.get("/simfs/out/shared.map")
                    leftovers = sorted(p_ for p_ in fs.files if p_.startswith("/simfs/out/") and p_ != "/simfs/out/shared.map" and "shared" in p_)
                    if allowed and (have is None or have.decode("utf-8", "replace") not in allowed or leftovers):
                        violation = self.viol("shared_output_file_is_none_of_the_saved_documents", "save",
                                              {"file": None if have is None else have.decode("utf-8", "replace")[:300], "leftover_files": leftovers},
                                              world="W2", op="save")
        explicit = dict(case)
        explicit["schedule"] = {"kind": "segments", "segments": sched.segments}
        out = {
            "violation": violation,
            "digest": core.digest([case["docs"], case["threads"], sched.segments]),
            "nontrivial": sched.switches > 0 or bool(fs.fired_faults),
            "stats": stats,
            "steps": sched.steps,
            "cover": sorted(sched.pairs)[:400],
            "tags": {"interleavings_of_threads": sched.digest()},
        }
        if violation:
            out["case_explicit"] = explicit
        return out

    @staticmethod
    def global_settings():
        """process-wide state that later calls' RESULTS can depend on (include resolution follows the working
        directory, MAPPYFILE_USE_CYTHON is read from the environment, deep documents meet the recursion limit).
        Logging / warnings configuration is deliberately not part of it: intrusive perhaps, but no result depends on it."""
        return {"recursionlimit": sys.getrecursionlimit(), "cwd": simfs._real_getcwd(), "environ": core.digest(sorted(os.environ.items()))}

    def execute(self, case):
        before = self.global_settings()
        r = self.exec_w1(case) if case["world"] in ("W1", "W1F") else self.exec_w2(case)
        after = self.global_settings()
        if not r.get("violation") and after != before:
            changed = {k_: [before[k_], after[k_]] for k_ in before if before[k_] != after[k_]}
            r["violation"] = self.viol("process_global_setting_changed", "process", changed, world=case["world"], op="process")
        return r

    # ------------------------------------------------------------ shrinking
    def shrink_fields(self, case):
        if case["world"] == "W2":
            return [["schedule", "segments"]] if case["schedule"].get("kind") == "segments" else []
        return [["ops"], ["faults"]]

    def shrink_candidates(self, case):
        if case["world"] == "W2":
            for t, calls in enumerate(case["threads"]):
                if calls:
                    yield core.set_path(case, ["threads", t], [])
            for t, calls in enumerate(case["threads"]):
                for j in range(len(calls)):
                    yield core.set_path(case, ["threads", t], calls[:j] + calls[j + 1:])
            segs = case["schedule"].get("segments")
            if segs:
                # merge neighbouring segments of one thread / give a segment to its neighbour
                for i in range(len(segs) - 1):
                    merged = segs[:i] + [[segs[i][0], segs[i][1] + segs[i + 1][1]]] + segs[i + 2:]
                    yield core.set_path(case, ["schedule", "segments"], merged)
        # smaller documents
        for did, text in case["docs"].items():
            lines = text.split("\n")
            if len(lines) > 6:
                for cut in (len(lines) // 2, len(lines) // 4):
                    for start in range(1, len(lines) - cut, max(1, cut)):
                        yield core.set_path(case, ["docs", did], "\n".join(lines[:start] + lines[start + cut:]))

    def describe_case(self, case):
        c = dict(case)
        c["docs"] = {k: (v[:300] + "...") if len(v) > 300 else v for k, v in case["docs"].items()}
        return c


def _short(x, n=1500):
    s = json.dumps(x, default=str)
    return s if len(s) <= n else s[:n] + "..."


if __name__ == "__main__":
    core.main(C12(), os.path.abspath(__file__))
