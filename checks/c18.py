#!/venv/bin/python
"""C18 - update / find helpers obey their documented laws.

History machine: a living d1 (plain dict or Mapfile dict) receives successive
patches through mappyfile.update(); object lists inside the current d1 are
searched with find / findall / findunique / findkey. A reference implementation
of the five helpers, written from the statement on built-in containers, is
applied to a shadow model; return values, the state of d1, identity of
untouched values, purity of the patch and of the searched lists are compared
after every step. One client, no clock, no I/O: the only 'faults' are
operations the statement says must be skipped (items lacking the key).
"""
import json
import os
import sys

sys.path.insert(0, os.path.dirname(os.path.dirname(os.path.abspath(__file__))))
from sim import core  # noqa: E402

if __name__ == "__main__":
    core.bootstrap()


class FoldDict(dict):
    """Model of a Mapfile dict: a built-in dict whose keys are folded by the
    reference implementation (the class itself adds no behaviour)."""


SCALAR_KEYS = ["name", "type", "group", "status", "data", "x", "2024", "0", "straße", "οδος"]  # (digit-only and non-ASCII keys are ordinary keys)
DICT_KEYS = ["web", "metadata", "legend"]
LIST_KEYS = ["layers", "classes", "styles", "items"]
WORDS = ["road", "roads", "Road", "rail", "ail", "", "a", "b", "water", "wat"]
DEL = "__delete__"


def is_dict_list(v):
    return isinstance(v, list) and len(v) > 0 and all(isinstance(i, dict) for i in v)


# ------------------------------------------------------------------ reference


def fold(d, k):
    return k.lower() if isinstance(d, FoldDict) and isinstance(k, str) else k


def ref_update(d1, d2, overwrite=True):
    if d2.get(DEL, False):
        return {}
    for k, v in d2.items():
        kk = fold(d1, k)
        if isinstance(v, dict):
            if v.get(DEL, False):
                del d1[kk]
            else:
                d1[kk] = ref_update(d1[kk] if kk in d1 else {}, v, overwrite)
        elif isinstance(v, (list, tuple)) and all(i is None or isinstance(i, dict) for i in v):
            orig = d1[kk] if kk in d1 else []
            out = []
            for i in range(max(len(orig), len(v))):
                o = orig[i] if i < len(orig) else None
                n = v[i] if i < len(v) else None
                if o is None:
                    o = {}
                if n is None:
                    out.append(o)  # None skips an index
                elif n.get(DEL, False):
                    pass  # item removed
                else:
                    out.append(ref_update(o, n, overwrite))
            d1[kk] = out
        else:
            if kk in d1 and isinstance(v, str) and v == DEL:
                del d1[kk]
            elif overwrite or kk not in d1:
                d1[kk] = v
    return d1


def ref_find(lst, key, value):
    k = key.lower()
    for i, item in enumerate(lst):
        if k in item and item[k] == value:
            return i
    return None


def ref_findall(lst, key, value):
    k = key.lower()
    values = value if isinstance(value, list) else [value]
    return [i for i, item in enumerate(lst) if k in item and any(item[k] == v for v in values)]


def ref_findunique(lst, key):
    k = key.lower()
    out = []
    for item in lst:
        if k in item and item[k] is not None and not any(item[k] == o for o in out):
            out.append(item[k])
    return sorted(out)


# ------------------------------------------------------------------ the check


class C18(core.Check):
    pid = "C18"
    level = "exploration"
    quick_runs = 12000
    thorough_runs = 2000000
    quick_budget_s = 40.0
    thorough_budget_s = 1500.0
    chunk = 200
    run_timeout_s = 20.0
    isolate = True
    rule = (
        "one evaluation = one seeded history: a generated nested document (plain or Mapfile dicts, depth <= 4) "
        "followed by 1-8 operations, each a type-compatible patch applied with mappyfile.update (scalar "
        "replacements, new keys, nested merges, lists with None placeholders / extra items, '__delete__' "
        "values and objects at keys, list positions and the root; both overwrite modes; in a fifth of the histories "
        "equal sub-patches are ONE object used at several places) or a find / findall / "
        "findunique / findkey query on an object list of the *current* d1 (values present, absent, prefix/"
        "suffix of another value, falsy, lists of values; items with and without the key; random key case). "
        "Compared with a reference implementation after every step (result, d1 state, identity of untouched "
        "values, purity of patch and of searched items). distinct = digest of (document, operations, final "
        "state); non-trivial = at least one update that changed d1 or one query over a list holding an item "
        "that lacks the key."
    )
    assumptions = [
        "patches whose value kind conflicts with d1's (dict over scalar), empty lists in a patch and deletion of "
        "an absent key are not generated: the statement is silent on them",
        "findunique is only asked about keys whose present values are all strings (sorted() needs comparable values)",
        "single client, no clock, no I/O: schedule/time/storage faults do not exist for this property",
    ]
    real_components = ["mappyfile.dictutils.update/find/findall/findunique/findkey", "mappyfile.ordereddict.CaseInsensitiveOrderedDict"]
    stubbed_components = ["none"]

    def setup(self):
        mf = core.import_repo()
        from mappyfile.ordereddict import CaseInsensitiveOrderedDict

        self.mf = mf
        self.CI = CaseInsensitiveOrderedDict

    # ---------------- spec <-> objects. spec: scalar | ["l", [...]] | ["d", cls, [[k, spec]...]]
    def build(self, spec, real, share=None):
        """share: a dict used to intern equal dict specs - a patch written with one constant used at several places
        (DELETE = {"__delete__": True}; defaults = {...}; {"classes": [defaults] * 3}) holds ONE object there"""
        if isinstance(spec, list):
            if spec[0] == "l":
                return [self.build(v, real, share) for v in spec[1]]
            if spec[0] == "t":
                return tuple(self.build(v, real, share) for v in spec[1])
            if spec[0] == "d":
                key = json.dumps(spec, sort_keys=False, default=str) if share is not None else None
                if key is not None and key in share:
                    return share[key]
                if spec[1] == "ci":
                    d = self.CI(self.CI) if real else FoldDict()
                else:
                    d = {}
                for k, v in spec[2]:
                    kk = k.lower() if (spec[1] == "ci" and not real) else k
                    d[kk] = self.build(v, real, share)
                if key is not None:
                    share[key] = d
                return d
            raise core.HarnessError(f"bad spec {spec!r}")
        if isinstance(spec, str) and real and len(spec) > 1:
            return spec[:1] + spec[1:]  # a string built at run time (as from JSON or a file), never an interned literal
        return spec

    def norm(self, x):
        if isinstance(x, dict):
            return ["D", [[k, self.norm(v)] for k, v in x.items()]]
        if isinstance(x, (list, tuple)):
            return ["L", [self.norm(v) for v in x]]
        return core.freeze(x)

    # ---------------- generation
    def gen_scalar(self, r):
        c = r.random()
        if c < 0.6:
            return r.choice(WORDS)
        if c < 0.8:
            return r.choice([0, 1, 2, 10])
        if c < 0.88:
            return r.choice([0.0, 1.5, 12.5])
        if c < 0.93:
            return None  # a key can exist and hold None
        return r.choice([True, False])

    def gen_doc(self, r, cls, depth=0):
        items = []
        for k in SCALAR_KEYS:
            if r.random() < 0.5:
                items.append([k, self.gen_scalar(r) if r.random() < 0.85 else ["l", [r.choice([0, 1, 255]) for _ in range(3)]]])
        if depth < 3:
            for k in DICT_KEYS:
                if r.random() < 0.3:
                    items.append([k, self.gen_doc(r, cls, depth + 2)])
            for k in LIST_KEYS:
                if r.random() < (0.5 if depth == 0 else 0.3):
                    lst_ = [self.gen_doc(r, cls, depth + 1) for _ in range(r.randint(1, 4))]
                    if r.random() < 0.25:
                        # equal-content items (two identical STYLE blocks, two empty ones), not necessarily adjacent
                        lst_.insert(r.randint(0, len(lst_)), json.loads(json.dumps(r.choice(lst_))))
                    items.append([k, ["l", lst_]])
        if items and r.random() < 0.15:
            # bookkeeping dicts as a parse with include_position / include_comments leaves them: keyed like the keywords
            present = [k_ for k_, v_ in items if not isinstance(v_, list)]
            if present:
                items.append(["__position__", ["d", "plain", [[k_, ["d", "plain", [["line", 3], ["column", 5]]]] for k_ in present]]])
                items.append(["__comments__", ["d", "plain", [[k_, "# about " + k_] for k_ in present[:2]]]])
        r.shuffle(items)
        return ["d", cls, items]

    def case_key(self, r, k, cls):
        # letter case is only varied where the receiving dict is a Mapfile dict
        if (cls == "ci" or isinstance(cls, FoldDict)) and r.random() < 0.4:
            return r.choice([k.upper(), k.capitalize()])
        return k

    def gen_patch(self, r, model, cls, depth=0):
        """A patch type-compatible with the current model dict."""
        items = []
        pcls = "plain" if r.random() < 0.8 else "ci"
        for k, v in list(model.items()):
            if r.random() > (0.5 if depth == 0 else 0.35):
                continue
            kk = self.case_key(r, k, model)
            if isinstance(v, dict):
                if r.random() < 0.15:
                    items.append([kk, ["d", "plain", [[DEL, True]]]])
                else:
                    items.append([kk, self.gen_patch(r, v, cls, depth + 1)])
            elif is_dict_list(v):
                lst = []
                for it in v:
                    c = r.random()
                    if c < 0.35:
                        lst.append(None)
                    elif c < 0.5:
                        lst.append(["d", "plain", [[DEL, True]]])
                    else:
                        lst.append(self.gen_patch(r, it, cls, depth + 1))
                for _ in range(r.choice([0, 0, 1, 2])):
                    lst.append(self.gen_doc(r, "plain", 3))
                if lst:
                    items.append([kk, ["t" if r.random() < 0.2 else "l", lst]])  # a tuple of patches is merged like a list
            elif isinstance(v, list):
                items.append([kk, DEL if r.random() < 0.2 else ["l", [r.choice([0, 1, 255]) for _ in range(r.choice([1, 2, 3]))]]])
            else:
                items.append([kk, DEL if r.random() < 0.2 else self.gen_scalar(r)])
        # new keys
        for _ in range(r.choice([0, 0, 1, 2])):
            c = r.random()
            if c < 0.6:
                k = r.choice(SCALAR_KEYS)
                if fold(model, k) not in model:
                    items.append([self.case_key(r, k, model), self.gen_scalar(r)])
            elif c < 0.8:
                k = r.choice(DICT_KEYS)
                if k not in model:
                    items.append([k, self.gen_doc(r, "plain", 3)])
            else:
                k = r.choice(LIST_KEYS)
                if k not in model:
                    items.append([k, ["l", [self.gen_doc(r, "plain", 3) for _ in range(r.randint(1, 2))]]])
        return ["d", pcls, items]

    def list_paths(self, model, prefix=()):
        out = []
        for k, v in model.items():
            if is_dict_list(v):
                out.append(list(prefix) + [k])
                for i, it in enumerate(v):
                    out += self.list_paths(it, tuple(prefix) + (k, i))
            elif isinstance(v, dict):
                out += self.list_paths(v, tuple(prefix) + (k,))
        return out

    def all_paths(self, model, prefix=()):
        out = [list(prefix)]
        if isinstance(model, dict):
            for k, v in model.items():
                out += self.all_paths(v, tuple(prefix) + (k,))
        elif isinstance(model, list):
            for i, v in enumerate(model):
                out += self.all_paths(v, tuple(prefix) + (i,))
        return out

    def generate(self, seed, tier):
        s = core.Streams(seed)
        k, r = s("knobs"), s("ops")
        cls = k.choice(["ci", "ci", "plain"])
        doc = self.gen_doc(r, cls)
        model = self.build(doc, real=False)
        ops = []
        p_update = k.choice([0.2, 0.5, 0.8])
        share = k.random() < 0.2
        if k.random() < 0.15:
            # motif: a patch that cannot be applied yet (it deletes an object d1 does not have) is tried and fails;
            # d1 then gains that object; the very same patch object is applied again and must now work
            missing = [kk for kk in DICT_KEYS if fold(model, kk) not in model]
            if missing:
                kk = r.choice(missing)
                bad = self.gen_patch(r, model, cls)
                bad = ["d", "plain", bad[2] + [[kk, ["d", "plain", [[DEL, True]]]]]]
                ops.append(["update", bad, True])
                add = ["d", "plain", [[kk, self.gen_doc(r, "plain", 3)]]]
                ops.append(["update", add, True])
                ref_update(model, self.build(add, real=False), True)
                ops.append(["update_again", 0])
                if self.compatible(model, self.build(bad, real=False)):
                    ref_update(model, self.build(bad, real=False), True)
        for _ in range(k.choice([1, 1, 2, 3, 4, 8])):
            if ops and r.random() < 0.12:
                ops.append(["update_again", r.randrange(8)])  # the very same patch object once more
                continue
            if share and r.random() < 0.5:
                # one constant sub-patch used at several places of the patch
                const = self.gen_doc(r, "plain", 3)
                const = ["d", "plain", [it_ for it_ in const[2] if not it_[0].startswith("__")]]
                items_ = []
                for mk, mv in list(model.items()):
                    if is_dict_list(mv) and r.random() < 0.7:
                        n_ = len(mv) + r.choice([0, 0, 1, 2])
                        items_.append([mk, ["l", [const if r.random() < 0.75 else None for _ in range(n_)]]])
                    elif isinstance(mv, dict) and not str(mk).startswith("__") and r.random() < 0.6:
                        items_.append([mk, const])
                for nk in DICT_KEYS + LIST_KEYS[:1]:
                    if fold(model, nk) not in model and r.random() < 0.4:
                        items_.append([nk, const if nk in DICT_KEYS else ["l", [const, const]]])
                patch = ["d", "plain", items_]
                if const[2] and items_ and self.compatible(model, self.build(patch, real=False)):
                    ow = r.random() < 0.7
                    ops.append(["update", patch, ow])
                    ref_update(model, self.build(patch, real=False), ow)
                    continue
            if r.random() < p_update:
                patch = self.gen_patch(r, model, cls)
                if r.random() < 0.03:
                    patch = ["d", "plain", patch[2] + [[DEL, True]]]
                ow = r.random() < 0.7
                ops.append(["update", patch, ow])
                ret = ref_update(model, self.build(patch, real=False), ow)
                if ret is not model:
                    pass  # root delete: d1 itself is untouched
            else:
                paths = self.list_paths(model)
                c = r.random()
                if c < 0.15 or not paths:
                    pth, x, out = r.choice(self.all_paths(model)), model, []
                    for p_ in pth:  # vary letter case only where the containing dict is a Mapfile dict
                        if isinstance(p_, int) and r.random() < 0.2:
                            out.append(p_ - len(x))  # the same element, addressed from the end
                        else:
                            out.append(self.case_key(r, p_, x) if isinstance(p_, str) else p_)
                        x = x[p_]
                    ops.append(["findkey", out])
                    continue
                path = r.choice(paths)
                lst = core.get_path(model, path)
                key = r.choice(SCALAR_KEYS)
                present = [it[key] for it in lst if key in it and not isinstance(it[key], (list, dict))]
                pool = list(WORDS) + [0, 1, False, 0.0, None, 1.0, 12.5]
                if present:
                    pool += present * 4
                    for p in present:
                        if isinstance(p, str) and len(p) > 1:
                            pool += [p[:-1], p[1:], p + "s"]
                qkey = r.choice([key, key.upper(), key.capitalize()])
                if r.random() < 0.08:
                    # keys nobody has: with a path-like or pattern-like look (no item may be touched, nothing may match)
                    qkey = r.choice(["metadata.name", key + ".x", "web/" + key, key + "*", key + "[0]", " " + key])
                if c < 0.4:
                    ops.append(["find", path, qkey, r.choice(pool)])
                elif c < 0.8:
                    v = r.choice(pool) if r.random() < 0.6 else ["l", [r.choice(pool) for _ in range(r.randint(0, 3))]]
                    ops.append(["findall", path, qkey, v])
                else:
                    ops.append(["findunique", path, qkey])
        case = {"prop": "C18", "seed": seed, "doc": doc, "ops": ops}
        if share:
            case["share_patches"] = True
        return case

    # ---------------- preconditions (what the statement speaks about)
    def compatible(self, model, patch):
        """patch (built, model side) is type-compatible with the model dict"""
        if not isinstance(model, dict):
            return False
        for k, v in patch.items():
            if k == DEL:
                continue
            kk = fold(model, k)
            have = kk in model
            if isinstance(v, dict):
                if v.get(DEL, False):
                    if not have:
                        return False
                elif have and not self.compatible(model[kk], v):
                    return False
                elif not have and not self.compatible({}, v):
                    return False
            elif isinstance(v, (list, tuple)) and all(i is None or isinstance(i, dict) for i in v):
                if len(v) == 0:
                    return False
                orig = model[kk] if have else []
                if have and not (isinstance(orig, list) and all(isinstance(i, dict) for i in orig)):
                    return False
                for i, n in enumerate(v):
                    o = orig[i] if i < len(orig) else {}
                    if n is None:
                        continue
                    if n.get(DEL, False):
                        if i >= len(orig):
                            return False
                        continue
                    if not self.compatible(o, n):
                        return False
            else:
                if isinstance(v, str) and v == DEL and not have:
                    return False
                if have and (isinstance(model[kk], dict) or is_dict_list(model[kk])):
                    return False
        return True

    def resolve(self, root, path, folding):
        x = root
        for p in path:
            if isinstance(x, dict):
                pp = p.lower() if isinstance(x, (FoldDict, self.CI)) and isinstance(p, str) else p
                if pp not in x:
                    return None, False
                x = x.get(pp)
            elif isinstance(x, list) and isinstance(p, int) and -len(x) <= p < len(x):
                x = x[p]
            else:
                return None, False
        return x, True

    # ---------------- execution
    def execute(self, case):
        mf = self.mf
        real = self.build(case["doc"], real=True)
        model = self.build(case["doc"], real=False)
        folding = isinstance(model, FoldDict)
        stats = {}
        violation = None
        steps = 0
        nontrivial = False

        def bump(k):
            stats[k] = stats.get(k, 0) + 1

        def viol(inv, op, detail, **sig):
            s = {"op": op[0]}
            s.update(sig)
            return {"invariant": inv, "kind": op[0], "sig": s, "detail": detail, "step": steps, "op": op}

        if self.norm(real) != self.norm(model):
            raise core.HarnessError("initial real/model mismatch")
        live_patches = []  # every patch object of the history stays alive and must stay as it was
        pool, pool_objs = [], []  # patch objects of this history, for "the same patch object again"

        for op in case["ops"]:
            steps += 1
            name = op[0]
            if name == "update_again":
                if not pool:
                    continue
                j = op[1] % len(pool)
                op = ["update", pool[j][1], pool[j][2], pool_objs[j]]
                name = "update"
            if name == "update":
                patch_m = self.build(op[1], real=False)
                patch_r = op[3] if len(op) > 3 else self.build(op[1], real=True, share={} if case.get("share_patches") else None)
                if not self.compatible(model, patch_m):
                    bump("skipped.incompatible_patch")
                    if True:
                        # the statement is silent on what such a patch does - but whatever it does (usually it
                        # raises half-way) must not affect later updates: try it on a throw-away copy, keep the
                        # patch object alive, and offer it again later
                        import copy as _copy

                        core.call(lambda: mf.update(_copy.deepcopy(real), patch_r, overwrite=op[2]))
                        bump("fault.update_with_patch_outside_the_statement")
                        pool.append(op)
                        pool_objs.append(patch_r)
                    continue
                pool.append(op)
                pool_objs.append(patch_r)
                patch_before = self.norm(patch_r)
                before = self.norm(model)
                # identity of every value reachable in d1 before the call
                ids_before = {k: id(v) for k, v in real.items()}
                mentioned = {fold(model, k) for k in patch_m}
                rr = core.call(lambda: mf.update(real, patch_r, overwrite=op[2]))
                mr = core.call(lambda: ref_update(model, patch_m, op[2]))
                bump("op.update")
                bump("op.update.overwrite" if op[2] else "op.update.no_overwrite")
                if rr[0] != mr[0]:
                    violation = viol("update_result_kind", op, {"real": rr[:2], "model": mr[:2]})
                    break
                if rr[0] == "exc":
                    # reference and code fail alike: the patch asks for something the statement is silent about
                    bump("skipped.patch_outside_the_statement")
                    real = self.build(case["doc"], real=True)  # both sides may be half-updated: start again from the document
                    model = self.build(case["doc"], real=False)
                    continue
                root_delete = mr[2] is not model
                if root_delete:
                    bump("op.update.root_delete")
                    if self.norm(rr[2]) != self.norm({}):
                        violation = viol("update_root_delete_result", op, {"real": self.norm(rr[2])})
                        break
                elif rr[2] is not real:
                    violation = viol("update_returns_d1", op, "return value is not d1 itself")
                    break
                a, b = self.norm(real), self.norm(model)
                if a != b:
                    violation = viol("update_state", op, {"real": a, "model": b})
                    break
                if self.norm(patch_r) != patch_before:
                    violation = viol("update_patch_modified", op, {"before": patch_before, "after": self.norm(patch_r)})
                    break
                live_patches.append((patch_r, patch_before, steps))
                for pobj, pnorm, pstep in live_patches[:-1]:
                    if self.norm(pobj) != pnorm:
                        violation = viol("earlier_patch_modified_by_later_update", op,
                                         {"patch_of_step": pstep, "before": pnorm, "after": self.norm(pobj)})
                        break
                if violation:
                    break
                for k, i in ids_before.items():
                    if k not in mentioned and k in real and id(real[k]) != i:
                        violation = viol("update_untouched_key_replaced", op, {"key": k})
                        break
                if violation:
                    break
                if b != before:
                    nontrivial = True
                    bump("op.update.changed_d1")
            elif name == "findkey":
                mres, ok = self.resolve(model, op[1], folding)
                if not ok:
                    bump("skipped.bad_path")
                    continue
                before = self.norm(real)
                rr = core.call(lambda: mf.findkey(real, *op[1]))
                bump("op.findkey")
                if rr[0] == "exc":
                    violation = viol("findkey_raised", op, rr[1])
                    break
                rres, _ = self.resolve(real, op[1], folding)
                if rr[2] is not rres and not (rres is None or isinstance(rres, (str, int, float, bool))):
                    violation = viol("findkey_identity", op, "result is not the element at the path")
                    break
                if self.norm(rr[2]) != self.norm(mres):
                    violation = viol("findkey_value", op, {"real": self.norm(rr[2]), "model": self.norm(mres)})
                    break
                if self.norm(real) != before:
                    violation = viol("findkey_mutated_argument", op, {"before": before, "after": self.norm(real)})
                    break
            elif name in ("find", "findall", "findunique"):
                mlst, ok = self.resolve(model, op[1], folding)
                rlst, ok2 = self.resolve(real, op[1], folding)
                if not (ok and ok2 and is_dict_list(mlst)):
                    bump("skipped.bad_path")
                    continue
                key = op[2]
                lk = key.lower()
                lacking = sum(1 for it in mlst if lk not in it)
                value = None
                if name != "findunique":
                    value = op[3][1] if isinstance(op[3], list) else op[3]
                    if any(isinstance(it.get(lk), (list, dict)) for it in mlst):
                        bump("reach.items_holding_list_or_dict_under_the_key")  # equality still decides: never a match for a scalar
                else:
                    vals_ = [it[lk] for it in mlst if lk in it and it[lk] is not None]
                    all_str = all(isinstance(v_, str) for v_ in vals_)
                    all_num = all(isinstance(v_, (int, float)) and not isinstance(v_, bool) for v_ in vals_)
                    if not (all_str or all_num):
                        bump("skipped.unsortable_values")  # sorted() needs mutually comparable values
                        continue
                before = self.norm(rlst)
                sig = {"items_lacking_key": "yes" if lacking else "no",
                       "item_class": "mapfile-dict" if folding else "plain-dict"}
                if name == "find":
                    rr = core.call(lambda: mf.find(rlst, key, value))
                    exp = ref_find(mlst, key, value)
                elif name == "findall":
                    rr = core.call(lambda: mf.findall(rlst, key, value))
                    exp = ref_findall(mlst, key, value)
                    sig["value_kind"] = "list" if isinstance(value, list) else ("falsy" if not value else type(value).__name__)
                else:
                    rr = core.call(lambda: mf.findunique(rlst, key))
                    exp = ref_findunique(mlst, key)
                bump("op." + name)
                if lacking:
                    bump("fault.items_lacking_key")
                    nontrivial = True
                after = self.norm(rlst)
                if after != before:
                    violation = viol(name + "_mutated_items", op, {"before": before, "after": after}, **sig)
                    break
                if rr[0] == "exc":
                    violation = viol(name + "_raised", op, rr[1], **sig)
                    break
                if name == "find":
                    got = None if rr[2] is None else next((i for i, it in enumerate(rlst) if it is rr[2]), "not-an-item")
                elif name == "findall":
                    got = [next((i for i, it in enumerate(rlst) if it is x), "not-an-item") for x in rr[2]] if isinstance(rr[2], list) else repr(rr[2])
                else:
                    got = rr[2]
                if got != exp:
                    violation = viol(name + "_result", op, {"real": got, "reference": exp, "value": value,
                                                            "present": [it.get(lk) for it in mlst]}, **sig)
                    break
            else:
                raise core.HarnessError(f"unknown op {op}")

        return {
            "violation": violation,
            "digest": core.digest([case["doc"], case["ops"], self.norm(model)]),
            "nontrivial": nontrivial,
            "stats": stats,
            "steps": steps,
        }

    def shrink_candidates(self, case):
        # drop top-level items of the document and of each patch
        doc = case["doc"]
        for i in range(len(doc[2])):
            yield core.set_path(case, ["doc"], ["d", doc[1], doc[2][:i] + doc[2][i + 1:]])
        for j, op in enumerate(case["ops"]):
            if op[0] == "update":
                items = op[1][2]
                for i in range(len(items)):
                    yield core.set_path(case, ["ops", j, 1], ["d", op[1][1], items[:i] + items[i + 1:]])
        # shrink lists inside the document one level down
        for i, (k, v) in enumerate(doc[2]):
            if isinstance(v, list) and v and v[0] == "l" and len(v[1]) > 1:
                for m in range(len(v[1])):
                    yield core.set_path(case, ["doc", 2, i, 1], ["l", v[1][:m] + v[1][m + 1:]])
            if isinstance(v, list) and v and v[0] == "d" and v[2]:
                for m in range(len(v[2])):
                    yield core.set_path(case, ["doc", 2, i, 1], ["d", v[1], v[2][:m] + v[2][m + 1:]])


if __name__ == "__main__":
    core.main(C18(), os.path.abspath(__file__))
