#!/venv/bin/python
"""C17 - Mapfile dicts behave as case-insensitive, insertion-ordered dicts.

Seeded operation histories on a population of live CaseInsensitiveOrderedDict
objects, each shadowed by a reference model built only from built-in dict /
list / scalars with lower-cased keys. Every operation is applied to both; the
return value (or exception class) and the state of EVERY member of the
population are compared after every step, so state shared by a copy shows up
at the step that mutates it. Faults: operations that must raise, a default
factory that fails during one chosen operation, and "restart": pickle to bytes,
unpickle in a fresh interpreter under another PYTHONHASHSEED, carry on there.
One client, no clock: the schedule dimension is degenerate for this property.
"""
import os
import sys

sys.path.insert(0, os.path.dirname(os.path.dirname(os.path.abspath(__file__))))
from sim import core  # noqa: E402

if __name__ == "__main__":
    core.bootstrap()

import copy  # noqa: E402
import pickle  # noqa: E402
import subprocess  # noqa: E402
from collections import OrderedDict  # noqa: E402

from sim import factories  # noqa: E402

OBJLIST = frozenset(
    "layers classes styles symbols labels outputformats features scaletokens composites joins".split()
)
KEYS = ["name", "NAME", "Name", "layers", "LAYERS", "Layers", "type", "TYPE", "x", "X", "classes", "Web", "", "two words", "Two Words",
        "data", "DATA", "e", "key", "__position__", "__comments__"]
KEYS3 = ["name", "NAME", "layers", "Layers", "x", "X"]
# keys whose lower() and casefold() differ, or whose upper-case form lowers differently (final sigma)
KEYS_UNI = ["Straße", "STRASSE", "straße", "ΟΔΟΣ", "οδος", "οδοσ", "İstanbul", "name", "NAME"]


class M:
    """Reference model: insertion-ordered built-in dict keyed by key.lower()."""

    __slots__ = ("factory", "d")

    def __init__(self, factory="none", items=()):
        self.factory = factory
        self.d = {}
        for k, v in items:
            self.d[k.lower()] = v

    def getitem(self, key):
        k = key.lower()
        if k in self.d:
            return self.d[k]
        if self.factory == "none":
            raise KeyError(k)
        if k in OBJLIST:
            v = []
        else:
            if self.factory == "flaky" and factories.FAULT["raise"]:
                raise factories.InjectedFactoryFault()
            v = M("none")
        self.d[k] = v
        return v


def m_copy(m):
    c = M(m.factory)
    c.d = dict(m.d)
    return c


def m_deepcopy(x):
    if isinstance(x, M):
        c = M(x.factory)
        c.d = {k: m_deepcopy(v) for k, v in x.d.items()}
        return c
    if isinstance(x, list):
        return [m_deepcopy(v) for v in x]
    return x


def m_eq(a, b):
    """OrderedDict equality: order-sensitive between two ordered dicts."""
    if isinstance(a, M) and isinstance(b, M):
        return len(a.d) == len(b.d) and all(
            ka == kb and m_eq(va, vb)
            for (ka, va), (kb, vb) in zip(a.d.items(), b.d.items())
        )
    if isinstance(a, M) or isinstance(b, M):
        # an ordered dict compared with a plain dict: ordinary dict equality, order does not matter
        m_, p_ = (a, b) if isinstance(a, M) else (b, a)
        if not isinstance(p_, dict):
            return False
        return len(m_.d) == len(p_) and all(k_ in p_ and m_eq(v_, p_[k_]) for k_, v_ in m_.d.items())
    if isinstance(a, list) and isinstance(b, list):
        return len(a) == len(b) and all(m_eq(x, y) for x, y in zip(a, b))
    return a == b


class C17(core.Check):
    pid = "C17"
    level = "exploration"
    quick_runs = 24000
    thorough_runs = 3000000
    quick_budget_s = 40.0
    thorough_budget_s = 1500.0
    chunk = 250
    run_timeout_s = 20.0
    isolate = True  # module- or class-level state of the dict classes must not leak from one history into the next
    rule = (
        "one evaluation = one seeded history of 1-40 dict-API operations on a population of live "
        "CaseInsensitiveOrderedDict objects and their reference models (get/set/del/in/get/pop/"
        "setdefault/update from dict,pairs,kwargs,ci-dict/construction/len/keys/items/==/copy family/"
        "pickle/restart in a fresh interpreter/nested mutation/raising ops/failing factory), compared "
        "after every step; distinct = distinct digest of (operation list, final states); non-trivial = "
        "the history has >= 3 distinct operation kinds, at least one mutation and at least one "
        "mixed-case key. coverage_pairs_reached counts distinct (abstract state, operation kind) pairs "
        "the real class was driven through (abstract state = factory kind + ordered tuple of present "
        "lower-case keys of the acting dict, capped at 4 keys)."
    )
    assumptions = [
        "string keys only; non-string keys, popitem, move_to_end, |, self-containing dicts and a mapping "
        "passed as the first positional argument are outside the statement and never generated",
        "single client, no clock: schedule and time faults do not exist for this property",
    ]
    real_components = [
        "mappyfile.ordereddict.CaseInsensitiveOrderedDict / DefaultOrderedDict",
        "copy, pickle (stdlib)",
        "fresh CPython interpreter for the restart operation",
    ]
    stubbed_components = ["none (the default factory used for fault injection is harness code)"]

    def setup(self):
        self.mf = core.import_repo()
        from mappyfile.ordereddict import CaseInsensitiveOrderedDict

        self.CI = CaseInsensitiveOrderedDict

    # ------------------------------------------------------------ values
    def gen_value(self, r, depth=0):
        c = r.random()
        if c < 0.35:
            return ["i", r.choice([0, 1, 2, 7, -1])]
        if c < 0.55:
            return ["s", r.choice(["", "a", "Road", "ROAD", "x y"])]
        if c < 0.62:
            return ["b", r.random() < 0.5]
        if c < 0.67:
            return ["n"]
        if c < 0.72:
            return ["f", r.choice([0.5, 1.0, -2.25])]
        if depth >= 2:
            return ["i", 3]
        if c < 0.745:  # a plain built-in dict as a value (what a user writes by hand), keys in any case
            return ["pd", [[r.choice(["Wms_Title", "a", "B", "name"]), ["s", r.choice(["t", "v"])]] for _ in range(r.randint(0, 2))]]
        if c < 0.77:  # POINTS-like: list of lists (of lists)
            return ["l", [["l", [["i", 1], ["l", [["i", 2]]] if r.random() < 0.3 else ["i", 2]]] for _ in range(r.randint(1, 2))]]
        if c < 0.86:
            return ["l", [self.gen_value(r, depth + 1) for _ in range(r.randint(0, 3))]]
        return [
            "d",
            r.choice(["none", "ci", "ci", "flaky"]),
            [[r.choice(KEYS), self.gen_value(r, depth + 1)] for _ in range(r.randint(0, 3))],
        ]

    def factory_obj(self, kind):
        return {"none": None, "ci": self.CI, "flaky": factories.flaky_factory}[kind]

    def factory_kind(self, f):
        if f is None:
            return "none"
        if f is self.CI:
            return "ci"
        if f is factories.flaky_factory:
            return "flaky"
        return "other:" + repr(f)[:40]

    def build_real(self, spec):
        t = spec[0]
        if t == "n":
            return None
        if t in ("i", "s", "b", "f"):
            return spec[1]
        if t == "l":
            return [self.build_real(v) for v in spec[1]]
        if t == "pd":
            return {k: self.build_real(v) for k, v in spec[1]}
        if t == "d":
            d = self.CI(self.factory_obj(spec[1]))
            for k, v in spec[2]:
                d[k] = self.build_real(v)
            return d
        raise core.HarnessError(f"bad spec {spec}")

    def build_model(self, spec):
        t = spec[0]
        if t == "n":
            return None
        if t in ("i", "s", "b", "f"):
            return spec[1]
        if t == "l":
            return [self.build_model(v) for v in spec[1]]
        if t == "pd":
            return {k: self.build_model(v) for k, v in spec[1]}  # stored as it is: an ordinary dict does not touch its values
        if t == "d":
            return M(spec[1], [(k, self.build_model(v)) for k, v in spec[2]])
        raise core.HarnessError(f"bad spec {spec}")

    def norm_real(self, x, depth=0):
        if depth > 50:
            return ["deep"]
        if isinstance(x, dict):
            fk = self.factory_kind(getattr(x, "default_factory", "nofactoryattr"))
            return ["D", type(x).__name__, fk, [[k, self.norm_real(v, depth + 1)] for k, v in x.items()]]
        if isinstance(x, list):
            return ["L", [self.norm_real(v, depth + 1) for v in x]]
        if isinstance(x, tuple):
            return ["T", [self.norm_real(v, depth + 1) for v in x]]
        return core.freeze(x)

    def norm_model(self, x, depth=0):
        if isinstance(x, dict):
            return ["D", "dict", "other:'nofactoryattr'", [[k, self.norm_model(v, depth + 1)] for k, v in x.items()]]
        if isinstance(x, M):
            return ["D", "CaseInsensitiveOrderedDict", x.factory, [[k, self.norm_model(v, depth + 1)] for k, v in x.d.items()]]
        if isinstance(x, list):
            return ["L", [self.norm_model(v, depth + 1) for v in x]]
        if isinstance(x, tuple):
            return ["T", [self.norm_model(v, depth + 1) for v in x]]
        return core.freeze(x)

    def population_from_loads(self, text):
        """[(real dict, model)] for the root loads() returns and for every dict nested in it. The model is what the
        statement says such a dictionary is: a case-insensitive dict whose factory is the Mapfile dict class."""
        root = self.mf.loads(text)
        out = []

        def to_model(x):
            if isinstance(x, dict):
                m = M("ci")
                for k_, v_ in x.items():
                    m.d[k_] = to_model(v_)
                return m
            if isinstance(x, list):
                return [to_model(v_) for v_ in x]
            if isinstance(x, tuple):
                return tuple(to_model(v_) for v_ in x)
            return x

        model_root = to_model(root)

        def walk(r_, m_):
            if isinstance(r_, dict) and isinstance(m_, M):
                if len(out) < 7:
                    out.append((r_, m_))
                for k_ in list(r_.keys()):
                    walk(r_.get(k_), m_.d.get(k_))
            elif isinstance(r_, list) and isinstance(m_, list):
                for a_, b_ in zip(r_, m_):
                    walk(a_, b_)

        walk(root, model_root)
        return out

    # ------------------------------------------------------------ generate
    OPS = [
        ("getitem", 12), ("setitem", 14), ("delitem", 6), ("contains", 5), ("get", 6),
        ("pop", 7), ("setdefault", 7), ("update", 10), ("construct", 4), ("len", 1),
        ("keys", 2), ("items", 1), ("iter", 1), ("eq", 3), ("copy", 8), ("nested_append", 5),
        ("nested_set", 5), ("deep_mutate", 6), ("eq_plain", 2), ("to_dict", 1), ("getitem_fault", 3), ("restart", 0), ("clear", 1), ("values", 1),
    ]

    def generate(self, seed, tier):
        s = core.Streams(seed)
        k = s("knobs")
        r = s("ops")
        n = k.choice([1, 2, 3, 3, 4, 6, 8, 12, 20, 40])
        keys = KEYS3 if k.random() < 0.5 else KEYS
        if k.random() < 0.2:
            keys = KEYS_UNI
        weights = dict(self.OPS)
        # swarm: switch off a random subset of operation kinds per run
        for name in list(weights):
            if k.random() < 0.2:
                weights[name] = 0
        p_restart = 0.004 if tier == "quick" else 0.01
        if k.random() < p_restart * 10:
            weights["restart"] = 3
        if not any(weights.values()):
            weights["setitem"] = 1
        names = [a for a, w in weights.items() if w > 0]
        ws = [weights[a] for a in names]
        init_text = None
        if k.random() < 0.03:  # (each costs a Parser construction: ~150 ms)
            # the dictionaries loads() itself hands out (root and every nested block), not ones built by the harness
            init_text = k.choice([
                'MAP\n NAME "x"\n WEB\n  METADATA\n   "wms_title" "t"\n   "Other" "v"\n  END\n END\n LAYER\n  NAME "l"\n  TYPE POINT\n  VALIDATION\n   "q" "."\n  END\n END\nEND',
                'METADATA\n "wms_title" "x"\n "b" "c"\nEND',
                'LAYER\n NAME "l"\n TYPE POINT\n CONNECTIONOPTIONS\n  "a" "b"\n END\n CLASS\n  STYLE\n   COLOR 1 2 3\n  END\n END\nEND',
                'SCALETOKEN\n NAME "%pri%"\n VALUES\n  "0" "a"\n  "1000" "b"\n END\nEND',
            ])
        init = ["d", k.choice(["none", "ci", "ci", "flaky"]),
                [[r.choice(keys), self.gen_value(r, 1)] for _ in range(k.choice([0, 0, 1, 2, 3]))]]
        ops = []
        restarts = 0
        for _ in range(n):
            name = r.choices(names, ws)[0]
            who = r.randrange(8)
            key = r.choice(keys)
            if name in ("getitem", "delitem", "contains", "getitem_fault"):
                ops.append([name, who, key])
            elif name == "setitem":
                ops.append([name, who, key, self.gen_value(r)])
            elif name == "get":
                ops.append([name, who, key, r.random() < 0.5, self.gen_value(r, 2)])
            elif name == "pop":
                ops.append([name, who, key, r.random() < 0.5, self.gen_value(r, 2)])
            elif name == "setdefault":
                ops.append([name, who, key, r.random() < 0.7, self.gen_value(r)])
            elif name == "update":
                pairs = [[r.choice(keys), self.gen_value(r, 1)] for _ in range(r.randint(0, 4))]
                ops.append([name, who, r.choice(["dict", "pairs", "kwargs", "cidict", "od", "both", "iter", "gen", "zip", "proxy", "userdict", "tuplepairs"]), pairs,
                            [[r.choice(keys), self.gen_value(r, 1)] for _ in range(r.randint(0, 2))]])
            elif name == "construct":
                pairs = [[r.choice(keys), self.gen_value(r, 1)] for _ in range(r.randint(0, 4))]
                ops.append([name, r.choice(["none", "ci", "flaky"]), r.choice(["dict", "pairs", "kwargs", "member", "od", "iter", "gen"]), pairs, who])
            elif name in ("len", "keys", "items", "iter", "clear", "values", "to_dict"):
                ops.append([name, who])
            elif name == "eq_plain":
                ops.append([name, who, r.choice(["same", "same", "extra", "othervalue", "reordered"])])
            elif name == "eq":
                ops.append([name, who, r.randrange(8)])
            elif name == "copy":
                ops.append([name, who, r.choice(["copy", "copy.copy", "deepcopy", "deepcopy", "pickle", "pickle0", "pickle2"])])
                if r.random() < 0.5:  # shared state shows up on the next mutation, so place one there
                    ops.append(["deep_mutate", r.choice([who, 7]), r.randrange(6), [r.randrange(4) for _ in range(r.randint(1, 3))], self.gen_value(r, 2)])
            elif name == "nested_append":
                ops.append([name, who, key, self.gen_value(r, 2)])
            elif name == "nested_set":
                ops.append([name, who, key, r.choice(keys), self.gen_value(r, 2)])
            elif name == "deep_mutate":
                ops.append([name, who, r.randrange(6), [r.randrange(4) for _ in range(r.randint(1, 3))], self.gen_value(r, 2)])
            elif name == "restart":
                if restarts < 1:
                    restarts += 1
                    ops.append([name, who, r.choice([1, 7, 12345])])
        case = {"prop": "C17", "seed": seed, "init": init, "ops": ops}
        if init_text:
            case["init_text"] = init_text
        return case

    # ------------------------------------------------------------ exhaustive blocks (short sequences)
    EXH_KEYS = ["name", "NAME", "layers", "Layers", "x", "X"]

    def exh_alphabet(self):
        ops = []
        for k in self.EXH_KEYS:
            ops += [["getitem", 0, k], ["setitem", 0, k, ["i", 1]], ["delitem", 0, k], ["contains", 0, k], ["get", 0, k, False, ["n"]],
                    ["pop", 0, k, False, ["n"]], ["pop", 0, k, True, ["i", 9]], ["setdefault", 0, k, True, ["l", []]],
                    ["update", 0, "pairs", [[k, ["i", 3]]], []], ["update", 0, "kwargs", [[k, ["i", 4]]], []]]
        ops += [["copy", 0, "copy"], ["copy", 0, "deepcopy"], ["copy", 0, "pickle"], ["deep_mutate", 1, 0, [0], ["i", 5]], ["items", 1], ["eq", 0, 1]]
        return ops

    def exh_blocks(self, tier):
        """(first op index, factory) blocks; a block enumerates every sequence of length L starting with that op"""
        n = len(self.exh_alphabet())
        return [(i, f) for f in ("none", "ci") for i in range(n)]

    def generate_idx(self, seed, tier, idx):
        blocks = self.exh_blocks(tier)
        if idx < len(blocks):
            i, f = blocks[idx]
            return {"prop": "C17", "seed": seed, "exhaustive": {"first": i, "factory": f, "length": 2 if tier == "quick" else 3}}
        return self.generate(seed, tier)

    def execute(self, case):
        if "exhaustive" not in case:
            return self.execute_history(case)
        import itertools

        ex = case["exhaustive"]
        alpha = self.exh_alphabet()
        first = alpha[ex["first"]]
        total = 0
        steps = 0
        cover = set()
        for init_keys in ([], ["name"], ["layers", "x"]):
            init = ["d", ex["factory"], [[k, ["l", [["i", 0]]] if k == "layers" else ["s", "v"]] for k in init_keys]]
            for rest in itertools.product(alpha, repeat=ex["length"] - 1):
                r = self.execute_history({"init": init, "ops": [first] + list(rest)})
                total += 1
                steps += r["steps"]
                cover.update(r.get("cover", ()))
                if r["violation"]:
                    # the single sequence is offered as the replay; the batch runner checks in a pristine process
                    # that it fails on its own and otherwise keeps the whole block (state kept by the library
                    # between the histories of one block) as the replay
                    r["case_explicit"] = {"prop": "C17", "seed": case.get("seed", 0), "init": init, "ops": [first] + list(rest)}
                    r["stats"] = {"exhaustive.sequences": total}
                    return r
        return {"violation": None, "digest": core.digest(["exhaustive", ex]), "nontrivial": True,
                "stats": {"exhaustive.sequences": total, "exhaustive.blocks": 1}, "steps": steps, "cover": sorted(cover)}

    def extra_phases(self, tier, seed, report):
        n6 = 6  # lower-case keys of the alphabet; abstract state = factory kind x ordered tuple of <= 4 present keys
        states = sum(__import__("math").perm(n6, j) for j in range(5)) * 3
        report["extra"]["abstract_states_upper_bound"] = states
        report["extra"]["abstract_state_x_operation_kind_pairs_upper_bound"] = states * len(self.OPS)
        report["extra"]["exhaustive_phase"] = (
            f"run indices 0..{len(self.exh_blocks(tier)) - 1} enumerate EVERY operation sequence of length "
            f"{2 if tier == 'quick' else 3} over a {len(self.exh_alphabet())}-operation alphabet (3 keys x 2 spellings) from 3 initial "
            "dictionaries x {no factory, loads-style factory}; the remaining indices are the seeded random histories")

    # ------------------------------------------------------------ execute one history
    def execute_history(self, case):
        CI = self.CI
        factories.FAULT["raise"] = False
        pop = [(self.build_real(case["init"]), self.build_model(case["init"]))]
        if case.get("init_text"):
            pop = self.population_from_loads(case["init_text"])
        stats = {}
        cover = set()
        kinds = set()
        mutated = False
        mixed = False
        violation = None
        steps = 0

        def bump(k):
            stats[k] = stats.get(k, 0) + 1

        def viol(inv, op, detail):
            return {"invariant": inv, "kind": op[0], "sig": {"op": op[0]}, "detail": detail, "step": steps, "op": op}

        def absstate(m):
            return m.factory + ":" + ",".join(list(m.d.keys())[:4])

        for op in case["ops"]:
            steps += 1
            name = op[0]
            kinds.add(name)
            who = op[1] % len(pop) if isinstance(op[1], int) else 0
            real, model = pop[who]
            cover.add(absstate(model) + "|" + name)
            rr = mr = None
            new_member = None
            try:
                if name == "getitem":
                    mixed |= op[2] != op[2].lower()
                    rr = core.call(lambda: real[op[2]])
                    mr = core.call(lambda: model.getitem(op[2]))
                    mutated = True
                elif name == "getitem_fault":
                    factories.FAULT["raise"] = True
                    try:
                        rr = core.call(lambda: real[op[2]])
                        mr = core.call(lambda: model.getitem(op[2]))
                    finally:
                        factories.FAULT["raise"] = False
                    if rr[0] == "exc" and "InjectedFactoryFault" in rr[1][1]:
                        bump("fault.factory_raised")
                elif name == "setitem":
                    mixed |= op[2] != op[2].lower()
                    rv, mv = self.build_real(op[3]), self.build_model(op[3])
                    rr = core.call(lambda: real.__setitem__(op[2], rv))
                    mr = core.call(lambda: model.d.__setitem__(op[2].lower(), mv))
                    mutated = True
                    if rr[0] == "ok" and isinstance(rv, (dict, list)) and real.get(op[2]) is not rv:
                        violation = viol("stored_value_is_not_the_object_given", op, {"given": type(rv).__name__, "stored": type(real.get(op[2])).__name__})
                        break
                elif name == "delitem":
                    rr = core.call(lambda: real.__delitem__(op[2]))
                    mr = core.call(lambda: model.d.__delitem__(op[2].lower()))
                    if rr[0] == "exc":
                        bump("fault.must_raise_op")
                    mutated = True
                elif name == "contains":
                    rr = core.call(lambda: op[2] in real)
                    mr = core.call(lambda: op[2].lower() in model.d)
                elif name == "get":
                    if op[3]:
                        dv_r, dv_m = self.build_real(op[4]), self.build_model(op[4])
                        rr = core.call(lambda: real.get(op[2], dv_r))
                        mr = core.call(lambda: model.d.get(op[2].lower(), dv_m))
                    else:
                        rr = core.call(lambda: real.get(op[2]))
                        mr = core.call(lambda: model.d.get(op[2].lower()))
                elif name == "pop":
                    if op[3]:
                        dv_r, dv_m = self.build_real(op[4]), self.build_model(op[4])
                        rr = core.call(lambda: real.pop(op[2], dv_r))
                        mr = core.call(lambda: model.d.pop(op[2].lower(), dv_m))
                    else:
                        rr = core.call(lambda: real.pop(op[2]))
                        mr = core.call(lambda: model.d.pop(op[2].lower()))
                        if rr[0] == "exc":
                            bump("fault.must_raise_op")
                    mutated = True
                elif name == "setdefault":
                    if op[3]:
                        dv_r, dv_m = self.build_real(op[4]), self.build_model(op[4])
                        rr = core.call(lambda: real.setdefault(op[2], dv_r))
                        mr = core.call(lambda: model.d.setdefault(op[2].lower(), dv_m))
                    else:
                        rr = core.call(lambda: real.setdefault(op[2]))
                        mr = core.call(lambda: model.d.setdefault(op[2].lower()))
                    mutated = True
                elif name == "update":
                    kind, pairs, kw = op[2], op[3], op[4]
                    rp = [(k, self.build_real(v)) for k, v in pairs]
                    mp_ = [(k, self.build_model(v)) for k, v in pairs]
                    rkw = {k: self.build_real(v) for k, v in kw}
                    mkw = {k: self.build_model(v) for k, v in kw}

                    def m_update(src, kwsrc):
                        for k, v in src:
                            model.d[k.lower()] = v
                        for k, v in kwsrc.items():
                            model.d[k.lower()] = v

                    if kind == "dict":
                        rr = core.call(lambda: real.update(dict(rp)))
                        mr = core.call(lambda: m_update(list(dict(mp_).items()), {}))
                    elif kind == "od":
                        rr = core.call(lambda: real.update(OrderedDict(rp)))
                        mr = core.call(lambda: m_update(list(OrderedDict(mp_).items()), {}))
                    elif kind == "pairs":
                        rr = core.call(lambda: real.update(rp))
                        mr = core.call(lambda: m_update(mp_, {}))
                    elif kind == "kwargs":
                        rr = core.call(lambda: real.update(**dict(rp)))
                        mr = core.call(lambda: m_update([], dict(mp_)))
                    elif kind in ("proxy", "userdict", "tuplepairs"):
                        import collections
                        import types

                        if kind == "proxy":
                            src_m = types.MappingProxyType(dict(rp))
                            mexp = list(dict(mp_).items())
                        elif kind == "userdict":
                            src_m = collections.UserDict(dict(rp))
                            mexp = list(dict(mp_).items())
                        else:
                            src_m = tuple((k_, v_) for k_, v_ in rp)
                            mexp = mp_
                        rr = core.call(lambda: real.update(src_m))
                        mr = core.call(lambda: m_update(mexp, {}))
                    elif kind in ("iter", "gen", "zip"):
                        # one-shot iterables of pairs: consumed exactly once, like dict.update does
                        if kind == "iter":
                            src_it = iter(rp)
                        elif kind == "gen":
                            src_it = ((k_, v_) for k_, v_ in rp)
                        else:
                            src_it = zip([k_ for k_, _ in rp], [v_ for _, v_ in rp])
                        rr = core.call(lambda: real.update(src_it))
                        mr = core.call(lambda: m_update(mp_, {}))
                    elif kind == "cidict":
                        src = CI(None)
                        for k, v in rp:
                            src[k] = v
                        rr = core.call(lambda: real.update(src))
                        mr = core.call(lambda: m_update(mp_, {}))
                    else:  # both positional and keyword
                        rr = core.call(lambda: real.update(rp, **rkw))
                        mr = core.call(lambda: m_update(mp_, mkw))
                    mutated = True
                    mixed |= any(k != k.lower() for k, _ in pairs)
                elif name == "construct":
                    fk, kind, pairs = op[1], op[2], op[3]
                    f = self.factory_obj(fk)
                    rp = [(k, self.build_real(v)) for k, v in pairs]
                    mp_ = [(k, self.build_model(v)) for k, v in pairs]
                    if kind == "dict":
                        rr = core.call(lambda: CI(f, dict(rp)))
                        mr = core.call(lambda: M(fk, list(dict(mp_).items())))
                    elif kind == "od":
                        rr = core.call(lambda: CI(f, OrderedDict(rp)))
                        mr = core.call(lambda: M(fk, list(OrderedDict(mp_).items())))
                    elif kind == "pairs":
                        rr = core.call(lambda: CI(f, rp))
                        mr = core.call(lambda: M(fk, mp_))
                    elif kind in ("iter", "gen"):
                        src_it = iter(rp) if kind == "iter" else ((k_, v_) for k_, v_ in rp)
                        rr = core.call(lambda: CI(f, src_it))
                        mr = core.call(lambda: M(fk, mp_))
                    elif kind == "kwargs":
                        rr = core.call(lambda: CI(f, **dict(rp)))
                        mr = core.call(lambda: M(fk, list(dict(mp_).items())))
                    else:  # from an existing member (shallow, like dict(d))
                        src_r, src_m = pop[op[4] % len(pop)]
                        rr = core.call(lambda: CI(f, src_r))
                        mr = core.call(lambda: M(fk, list(src_m.d.items())))
                    if rr[0] == "ok" and mr[0] == "ok":
                        new_member = (rr[2], mr[2])
                        rr = ("ok", self.norm_real(rr[2]), rr[2])
                        mr = ("ok", self.norm_model(mr[2]), mr[2])
                    mixed |= any(k != k.lower() for k, _ in pairs)
                elif name == "len":
                    rr = core.call(lambda: len(real))
                    mr = core.call(lambda: len(model.d))
                elif name == "keys":
                    rr = core.call(lambda: list(real.keys()))
                    mr = core.call(lambda: list(model.d.keys()))
                elif name == "iter":
                    rr = core.call(lambda: [k for k in real])
                    mr = core.call(lambda: [k for k in model.d])
                elif name == "values":
                    rr = core.call(lambda: self.norm_real(list(real.values())))
                    mr = core.call(lambda: self.norm_model(list(model.d.values())))
                elif name == "items":
                    rr = core.call(lambda: self.norm_real([list(kv) for kv in real.items()]))
                    mr = core.call(lambda: self.norm_model([list(kv) for kv in model.d.items()]))
                elif name == "to_dict":
                    rr = core.call(lambda: self.norm_real(list(dict(real).items())))
                    mr = core.call(lambda: self.norm_model(list(dict(model.d).items())))
                    rr, mr = ("ok", rr[1], rr[2]), ("ok", mr[1], mr[2])
                    if rr[2] != mr[2]:
                        violation = viol("dict_conversion", op, {"real": rr[2], "model": mr[2]})
                        break
                    continue
                elif name == "eq_plain":
                    # equality with an ordinary dict holding the lower-cased keys (order does not matter for a plain dict)
                    def plain(x):
                        if isinstance(x, M):
                            return {k_: plain(v_) for k_, v_ in x.d.items()}
                        if isinstance(x, list):
                            return [plain(v_) for v_ in x]
                        return x

                    other = plain(model)
                    want_eq = True
                    if op[2] == "extra":
                        other["__extra__"] = 1
                        want_eq = False
                    elif op[2] == "othervalue":
                        if other:
                            k0 = next(iter(other))
                            other[k0] = ("different", other[k0])
                            want_eq = False
                    elif op[2] == "reordered":
                        other = dict(reversed(list(other.items())))
                    rr = core.call(lambda: (real == other, real != other))
                    mr = ("ok", None, (want_eq, not want_eq))
                elif name == "clear":
                    rr = core.call(lambda: real.clear())
                    mr = core.call(lambda: model.d.clear())
                    mutated = True
                elif name == "eq":
                    r2, m2 = pop[op[2] % len(pop)]
                    rr = core.call(lambda: real == r2)
                    mr = core.call(lambda: m_eq(model, m2))
                elif name == "copy":
                    how = op[2]
                    if how == "copy":
                        rr = core.call(lambda: real.copy())
                        mr = core.call(lambda: m_copy(model))
                    elif how == "copy.copy":
                        rr = core.call(lambda: copy.copy(real))
                        mr = core.call(lambda: m_copy(model))
                    elif how == "deepcopy":
                        rr = core.call(lambda: copy.deepcopy(real))
                        mr = core.call(lambda: m_deepcopy(model))
                    else:
                        proto = {"pickle": pickle.HIGHEST_PROTOCOL, "pickle0": 0, "pickle2": 2}[how]
                        rr = core.call(lambda: pickle.loads(pickle.dumps(real, protocol=proto)))
                        mr = core.call(lambda: m_deepcopy(model))
                    if rr[0] == "ok":
                        if type(rr[2]) is not type(real):
                            violation = viol("copy_class", op, f"{type(rr[2]).__name__} != {type(real).__name__}")
                            break
                        # equality as the user sees it
                        if not (rr[2] == real):
                            violation = viol("copy_not_equal", op, "copy != original under ==")
                            break
                        new_member = (rr[2], mr[2])
                        rr = ("ok", self.norm_real(rr[2]), rr[2])
                        mr = ("ok", self.norm_model(mr[2]), mr[2])
                    bump("op.copy." + how)
                elif name == "restart":
                    rr = core.call(lambda: self.restart(real, op[2]))
                    mr = core.call(lambda: m_deepcopy(model))
                    bump("fault.restart_fresh_interpreter")
                    if rr[0] == "ok":
                        new_member = (rr[2], mr[2])
                        rr = ("ok", self.norm_real(rr[2]), rr[2])
                        mr = ("ok", self.norm_model(mr[2]), mr[2])
                elif name == "nested_append":
                    k = op[2].lower()
                    if k in model.d and isinstance(model.d[k], list):
                        rv, mv = self.build_real(op[3]), self.build_model(op[3])
                        rr = core.call(lambda: real.get(op[2]).append(rv))
                        mr = core.call(lambda: model.d[k].append(mv))
                        mutated = True
                        bump("op.nested_mutation")
                    else:
                        continue
                elif name == "deep_mutate":
                    # walk below the value of one key (list index / n-th dict key, modulo size)
                    # on both sides and mutate the innermost container reached
                    containers = [k_ for k_, v_ in model.d.items() if isinstance(v_, (list, M))]
                    if not containers:
                        continue
                    k = containers[op[2] % len(containers)]
                    rc, mc = real.get(k), model.d[k]
                    for ix in op[3]:
                        if isinstance(mc, list) and mc and isinstance(mc[ix % len(mc)], (list, M)):
                            rc, mc = rc[ix % len(mc)], mc[ix % len(mc)]
                        elif isinstance(mc, M) and mc.d:
                            kk = list(mc.d)[ix % len(mc.d)]
                            if isinstance(mc.d[kk], (list, M)):
                                rc, mc = rc.get(kk), mc.d[kk]
                    rv, mv = self.build_real(op[4]), self.build_model(op[4])
                    if isinstance(mc, list):
                        rr = core.call(lambda: rc.append(rv))
                        mr = core.call(lambda: mc.append(mv))
                    elif isinstance(mc, M):
                        rr = core.call(lambda: rc.__setitem__("Deep", rv))
                        mr = core.call(lambda: mc.d.__setitem__("deep", mv))
                    else:
                        continue
                    mutated = True
                    bump("op.nested_mutation")
                elif name == "nested_set":
                    k = op[2].lower()
                    if k in model.d and isinstance(model.d[k], M):
                        rv, mv = self.build_real(op[4]), self.build_model(op[4])
                        rr = core.call(lambda: real.get(op[2]).__setitem__(op[3], rv))
                        mr = core.call(lambda: model.d[k].d.__setitem__(op[3].lower(), mv))
                        mutated = True
                        bump("op.nested_mutation")
                    else:
                        continue
                else:
                    raise core.HarnessError(f"unknown op {op}")
            finally:
                factories.FAULT["raise"] = False
            bump("op." + name)

            # ---- compare result
            if rr[0] != mr[0]:
                violation = viol("result_kind", op, {"real": rr[:2], "model": mr[:2]})
                break
            if rr[0] == "exc":
                bump("raised_as_model")
                if not isinstance(rr[2], type(mr[2])):  # same class as an ordinary dict raises, or a subclass of it
                    violation = viol("exception_class", op, {"real": rr[1], "model": mr[1]})
                    break
            else:
                a = rr[1] if name in ("construct", "copy", "restart", "items", "values") else self.norm_real(rr[2])
                b = mr[1] if name in ("construct", "copy", "restart", "items", "values") else self.norm_model(mr[2])
                if a != b:
                    violation = viol("result_value", op, {"real": a, "model": b})
                    break
            if new_member is not None and len(pop) < 8:
                pop.append(new_member)
            # ---- compare every member's state (catches shared mutable state)
            bad = None
            for i, (rl, ml) in enumerate(pop):
                a, b = self.norm_real(rl), self.norm_model(ml)
                if a != b:
                    bad = (i, a, b)
                    break
            if bad:
                inv = "state_of_acting_dict" if bad[0] == who else "state_of_other_dict"
                violation = viol(inv, op, {"member": bad[0], "real": bad[1], "model": bad[2]})
                break

        final = [self.norm_model(m) for _, m in pop]
        return {
            "violation": violation,
            "digest": core.digest([case["init"], case["ops"], final]),
            "nontrivial": len(kinds) >= 3 and mutated and mixed,
            "stats": stats,
            "steps": steps,
            "cover": sorted(cover),
        }

    def restart(self, real, hashseed):
        """Crash/restart: only the pickled bytes survive; a fresh interpreter
        under another hash seed loads them, re-dumps them, and we continue on
        what it sends back."""
        data = pickle.dumps(real, protocol=2)
        code = (
            "import sys,pickle\n"
            f"sys.path.insert(0,{core.REPO!r}); sys.path.insert(1,{core.VERIF!r})\n"
            "import logging; logging.disable(50)\n"
            "d=pickle.loads(sys.stdin.buffer.read())\n"
            "assert all(k==k.lower() for k in d.keys())\n"
            "sys.stdout.buffer.write(pickle.dumps(d,protocol=2))\n"
        )
        env = dict(os.environ)
        env["PYTHONHASHSEED"] = str(hashseed)
        p = subprocess.run([sys.executable, "-c", code], input=data, capture_output=True, env=env, timeout=60)
        if p.returncode != 0:
            raise RuntimeError("restart failed: " + p.stderr.decode()[-300:])
        return pickle.loads(p.stdout)

    def shrink_fields(self, case):
        return [] if "exhaustive" in case else [["ops"]]

    def shrink_candidates(self, case):
        if "exhaustive" in case:
            return
        # simpler values, simpler initial dict
        if case["init"][2]:
            c = core.set_path(case, ["init"], ["d", case["init"][1], []])
            yield c
        for i, op in enumerate(case["ops"]):
            for j, a in enumerate(op):
                if isinstance(a, list) and a and a[0] in ("l", "d") and a != ["i", 0]:
                    yield core.set_path(case, ["ops", i, j], ["i", 0])
                if isinstance(a, int) and not isinstance(a, bool) and j == 1 and a != 0:
                    yield core.set_path(case, ["ops", i, j], 0)


if __name__ == "__main__":
    core.main(C17(), os.path.abspath(__file__))
