#!/venv/bin/python
"""C20 - file, stream and command-line front ends agree with the string API.

Each run builds a private directory on tmpfs and drives a short sequence of
operations through the real codecs, the real newline translation and the real
click command line (executed in-process; the operating system's treatment of
sys.exit(n) is modelled as n & 0xFF and calibrated against real subprocesses in
every batch). Oracles are relational: file vs stream vs string API vs CLI.
The fault kinds of this property are the files themselves: unparseable,
undecodable (invalid UTF-8), empty, missing, a directory, and files with
1..513 validation messages (concentrated at the exit-status boundaries).
"""
import os
import sys

sys.path.insert(0, os.path.dirname(os.path.dirname(os.path.abspath(__file__))))
from sim import core  # noqa: E402

if __name__ == "__main__":
    core.bootstrap()

import contextlib  # noqa: E402
import io  # noqa: E402
import json  # noqa: E402
import shutil  # noqa: E402
import subprocess  # noqa: E402
import tempfile  # noqa: E402

from sim import workload  # noqa: E402

STRINGS = ["roads", "café", "中文", "\U0001d4b3\U0001f600", "á", "‮abc", "tab\there", "line1\nline2", "cr\rhere",
           "crlf\r\nhere", "nel\u0085x", "ls x", "ps x", "vt\x0bx", "ff\x0cx", "in﻿side", "back\\slash",
           "semi;colon", "#hash", "it's", "x" * 300, "éè", "\U00010348"]
PLAIN_STRINGS = ["roads", "café", "中文", "\U0001d4b3\U0001f600", "á", "Layer 1", "it's"]
NCOUNTS = [0, 0, 1, 1, 2, 3, 7, 254, 255, 256, 257, 258, 300, 511, 512, 513]


def exit_status(code):
    """What the OS reports for sys.exit(code)."""
    if code is None:
        return 0
    if isinstance(code, bool):
        return int(code)
    if isinstance(code, int):
        return code & 0xFF
    return 1


class C20(core.Check):
    pid = "C20"
    level = "exploration"
    quick_runs = 400
    thorough_runs = 100000
    quick_budget_s = 45.0
    thorough_budget_s = 1500.0
    chunk = 1
    run_timeout_s = 200.0
    isolate = True
    rule = (
        "one evaluation = one private tmpfs directory and 2-5 operations: 'loaders' (a generated document with "
        "BMP/astral/combining/bidi/control-character string values incl. CR, CRLF, NEL, U+2028 written as UTF-8 "
        "bytes, LF or CRLF line ends; open vs load(text-mode default, newline='', StringIO) vs loads), 'writers' "
        "(save vs dump vs dumps bytes; re-open), 'format' (CLI with indent 0-8, spacer, quote, newlinechar, "
        "expand/no-expand, comments, also IN == OUT, vs save(open(IN))), 'validate' (CLI over 1-8 files mixing "
        "valid, invalid with n messages - n drawn from 1,2,3,7,254..258,300,511..513 -, unparseable, undecodable, "
        "empty, a directory, wildcards; message-line count and exit status vs the API), 'schema' (CLI vs API "
        "JSON). distinct = digest of the operation list; non-trivial = the run contains a CLI call or a string "
        "value with a non-ASCII or control character."
    )
    assumptions = [
        "the OS truncation of exit statuses is modelled as n & 0xFF; the model is calibrated against real subprocesses in each batch",
        "CLI message text is not compared, only the number of message lines and the status",
        "string values containing the output quote character are outside the guarantee and not generated",
        "write-side faults (ENOSPC, read-only target) are not asserted on: the statement promises nothing about them",
    ]
    real_components = ["mappyfile.utils open/load/loads/save/dump/dumps", "mappyfile.cli format/validate/schema through click",
                       "utf-8 codec, io text layer and newline translation", "real tmpfs directory", "real subprocesses for calibration"]
    stubbed_components = ["process exit status: in-process SystemExit code -> n & 0xFF (calibrated)"]

    _trace: list = []

    def setup(self):
        self.mf = core.import_repo()
        import mappyfile.cli as cli

        self.cli = cli
        self.gen = workload.SchemaGen()

    # ------------------------------------------------------------ generation
    def gen_doc(self, r, strings, nl="\n", comments=0.0):
        old = self.gen.STR
        try:
            self.gen.STR = strings
            return self.gen.document(r, r.choice(["map", "map", "layer", "class"]), comments=comments, nl=nl)
        finally:
            self.gen.STR = old

    def rand_char(self, r):
        """One code point: controls, Latin-1 (NEL), general punctuation (U+2028/9, bidi), BMP, astral; never the
        output quote character (documented exclusion), never a surrogate."""
        while True:
            c = r.random()
            if c < 0.2:
                cp = r.randrange(0x01, 0x20)
            elif c < 0.35:
                cp = r.randrange(0x20, 0x7F)
            elif c < 0.5:
                cp = r.randrange(0x7F, 0x100)
            elif c < 0.65:
                cp = r.randrange(0x2000, 0x2070)
            elif c < 0.85:
                cp = r.randrange(0x100, 0x10000)
            else:
                cp = r.randrange(0x10000, 0x110000)
            if 0xD800 <= cp <= 0xDFFF or cp == 0x22:
                continue
            return chr(cp)

    def invalid_map(self, n, nl="\n"):
        """A Mapfile that parses and yields exactly n validation messages at the default version."""
        lines = ["MAP", '  NAME "m"']
        for i in range(n):
            lines += ["  LAYER", f'    NAME "l{i}"', "    TYPE POINT", "    MINSCALEDENOM -1", "  END"]
        lines.append("END")
        return nl.join(lines) + nl

    def generate(self, seed, tier):
        s = core.Streams(seed)
        k, r, w = s("knobs"), s("ops"), s("workload")
        weights = {"loaders": 4, "writers": 4, "cycle": 4, "format": 3, "validate": 3, "schema": 0.15, "failed_load": 1.5}
        for x in list(weights):
            if k.random() < 0.2:
                weights[x] = 0
        if not any(weights.values()):
            weights["loaders"] = 1
        names = [a for a in weights if weights[a]]
        ops = []
        for _ in range(k.choice([2, 3, 3, 5])):
            name = r.choices(names, [weights[a] for a in names])[0]
            if name == "loaders":
                strings = r.sample(STRINGS, 5)
                lead = r.choice(["", "", "\n\n", "   ", "# header\n", "\r\n \t"])
                if r.random() < 0.12:
                    # a file well over 64 KiB, dense with multi-byte characters, so that any fixed-size read boundary
                    # falls inside a character
                    body = "".join(f'  LAYER\n    NAME "слой{i}中文中文中文中文中文中文中文中文中文中文中文中文中文中文中文中文"\n    TYPE POINT\n    DATA "данныеданныеданные{i}"\n  END\n' for i in range(700))
                    ops.append({"op": "loaders", "text": " " * r.randrange(4) + 'MAP\n  NAME "большой"\n' + body + "END\n", "kw": {}, "bom": False})
                    continue
                ops.append({"op": "loaders", "text": lead + self.gen_doc(w, strings, nl=r.choice(["\n", "\n", "\r\n"]), comments=r.choice([0, 0.3])),
                            "kw": {"include_comments": r.random() < 0.3, "include_position": r.random() < 0.3}, "bom": False})
            elif name == "failed_load":
                # a file with comments and then a syntax error: every front end must refuse it, and the refusal
                # must leave nothing behind for the loads that follow
                good = self.gen_doc(w, r.sample(PLAIN_STRINGS, 3), comments=0.8)
                ops.append({"op": "failed_load", "text": "# leading comment\n" + workload.break_text(r, good), "via": r.choice(["open", "load", "loads"])})
                strings = r.sample(PLAIN_STRINGS, 3)
                ops.append({"op": "loaders", "text": self.gen_doc(w, strings, comments=0.5), "kw": {"include_comments": True, "include_position": False}, "bom": False})
            elif name == "cycle":
                vals = []
                for _ in range(3):
                    if r.random() < 0.4:
                        vals.append(r.choice(STRINGS))
                    else:
                        vals.append("".join(self.rand_char(r) for _ in range(r.randint(1, 8))) + "z")
                ops.append({"op": "cycle", "values": vals, "newlinechar": r.choice(["\n", "\n", "\r\n"]), "quote": '"',
                            "indent": r.choice([0, 2, 4])})
            elif name == "writers":
                strings = r.sample(STRINGS, 5)
                ops.append({"op": "writers", "text": self.gen_doc(w, strings),
                            "kw": {"indent": r.choice([0, 1, 2, 4, 8]), "spacer": r.choice([" ", "\t"]), "quote": '"',
                                   "newlinechar": r.choice(["\n", "\r\n"]), "end_comment": r.random() < 0.3, "align_values": r.random() < 0.3}})
            elif name == "format":
                strings = r.sample(PLAIN_STRINGS if r.random() < 0.5 else STRINGS, 4)
                ops.append({"op": "format", "text": self.gen_doc(w, strings, nl=r.choice(["\n", "\r\n"]), comments=r.choice([0, 0.4])),
                            "indent": r.choice([None, 0, 1, 2, 3, 4, 8]), "spacer": r.choice([None, " ", "\\t"]),
                            "quote": r.choice([None, '"', '"', "'"]) if not any("'" in x for x in strings) else r.choice([None, '"']),
                            "newlinechar": r.choice([None, "\\n", "\\r\\n"]), "expand": r.choice([None, True, False]),
                            "comments": r.choice([None, True, False]), "in_place": r.random() < 0.25,
                            "include": r.random() < 0.3,
                            "existing_out": r.choice([None, None, "other_newlines", "other_newlines", "same", "garbage", "cr_variant"]),
                            "symlink": r.random() < 0.25})
            elif name == "validate":
                files = []
                for _ in range(r.choice([1, 1, 2, 3, 5, 8])):
                    kind = r.choice(["valid", "valid", "invalid", "invalid", "invalid", "versioned", "versioned", "unparseable", "undecodable", "empty", "dir", "missing",
                                     "selfinclude", "bareinclude", "missinginclude"])
                    f = {"kind": kind}
                    if kind == "invalid":
                        f["n"] = r.choice(NCOUNTS[2:])
                    files.append(f)
                ops.append({"op": "validate", "files": files, "version": r.choice([None, None, 7.6, 8.0, 6.0]), "glob": r.random() < 0.25,
                            "odd_names": r.random() < 0.3,
                            "expand": r.choice([None, None, False])})
            else:
                ops.append({"op": "schema", "version": r.choice([None, 7.6, 8.0])})
        return {"prop": "C20", "seed": seed, "ops": ops}

    # ------------------------------------------------------------ CLI in-process
    def run_cli(self, args, cwd=None):
        out = io.StringIO()
        code = "returned"
        prev = os.getcwd()
        with contextlib.redirect_stdout(out):
            try:
                if cwd:
                    os.chdir(cwd)  # (this run has its own process: nobody else sees the working directory)
                self.cli.main.main(args=[str(a) for a in args], standalone_mode=False)
            except SystemExit as e:
                code = e.code
            except Exception as e:  # noqa: BLE001  (click usage errors etc.)
                return {"status": "exception:" + type(e).__name__, "stdout": out.getvalue()}
            finally:
                os.chdir(prev)
        res = {"status": exit_status(None if code == "returned" else code), "stdout": out.getvalue()}
        self._trace.append([args[0], res["status"], len(res["stdout"].splitlines())])
        return res

    def run_cli_subprocess(self, args, cwd):
        code = f"import sys; sys.path.insert(0, {core.REPO!r}); from mappyfile.cli import main; main()"
        p = subprocess.run([sys.executable, "-c", code] + [str(a) for a in args], capture_output=True, text=True, cwd=cwd, timeout=180,
                           env=dict(os.environ, PYTHONIOENCODING="utf-8"))
        return {"status": p.returncode, "stdout": p.stdout}

    # ------------------------------------------------------------ execute
    def execute(self, case):
        mf = self.mf
        stats = {}

        def bump(k, n=1):
            stats[k] = stats.get(k, 0) + n

        def viol(inv, op, detail, **sig):
            return {"invariant": inv, "kind": op["op"], "sig": dict(sig, op=op["op"]), "detail": detail}

        tmp = tempfile.mkdtemp(prefix="verif-c20-", dir=core.TMPBASE)
        self._trace = []
        violation = None
        nontrivial = False
        steps = 0
        try:
            for oi, op in enumerate(case["ops"]):
                steps += 1
                d = os.path.join(tmp, f"op{oi}")
                os.makedirs(d)
                name = op["op"]
                bump("op." + name)
                if name == "failed_load":
                    p_ = os.path.join(d, "bad.map")
                    with open(p_, "wb") as f_:
                        f_.write(op["text"].encode("utf-8"))
                    if op["via"] == "open":
                        r_ = core.call(lambda: self.mf.open(p_, include_comments=True))
                    elif op["via"] == "load":
                        with open(p_, "r", encoding="utf-8", newline="") as fp_:
                            r_ = core.call(lambda: self.mf.load(fp_, include_comments=True))
                    else:
                        r_ = core.call(lambda: self.mf.loads(op["text"], include_comments=True))
                    bump("fault.unparseable_document_loaded" if r_[0] == "exc" else "reach.damaged_document_still_parses")
                elif name == "loaders":
                    violation = self.op_loaders(op, d, viol, bump)
                elif name == "writers":
                    violation = self.op_writers(op, d, viol, bump)
                elif name == "cycle":
                    violation = self.op_cycle(op, d, viol, bump)
                    nontrivial = True
                elif name == "format":
                    violation = self.op_format(op, d, viol, bump)
                    nontrivial = True
                elif name == "validate":
                    violation = self.op_validate(op, d, viol, bump)
                    nontrivial = True
                elif name == "schema":
                    violation = self.op_schema(op, d, viol, bump)
                    nontrivial = True
                if name in ("loaders", "writers") and any(ord(c) > 126 or (ord(c) < 32 and c not in "\n") for c in op["text"]):
                    nontrivial = True
                if violation:
                    break
        finally:
            shutil.rmtree(tmp, ignore_errors=True)
        ops_d = json.dumps(case["ops"], sort_keys=True)
        return {"violation": violation, "digest": core.digest([ops_d, self._trace, sorted(stats.items())]), "nontrivial": nontrivial, "stats": stats, "steps": steps}

    def op_loaders(self, op, d, viol, bump):
        mf = self.mf
        data = op["text"].encode("utf-8")
        # the file name is just a name: nothing in it is special (no environment variables, no templates, no globbing)
        names = ["in.map", "in.map", "cost_$HOME.map", "stage_${PATH}.map", "tiles_{z}.map", "ünï 中.map", "with space.map", "~tilde.map",
                 "n" * 251 + ".map"]  # (the longest name a directory entry can have: 255 bytes)
        p = os.path.join(d, names[len(data) % len(names)])
        with open(p, "wb") as f:
            f.write(data)
        kw = op["kw"]
        ref = core.call(lambda: mf.loads(op["text"], **kw))
        has_cr_in_string = "\r" in op["text"].replace("\r\n", "") or any("\r\n" in seg for seg in op["text"].split('"')[1::2])
        sig = {"cr_inside_string_value": "yes" if has_cr_in_string else "no"}
        a = core.call(lambda: mf.open(p, **kw))
        if a[:2] != ref[:2]:
            return viol("open_differs_from_loads", op, {"open": _short(a[1]), "loads": _short(ref[1])}, **sig)
        with open(p, "r", encoding="utf-8", newline="") as fp:
            b = core.call(lambda: mf.load(fp, **kw))
        if b[:2] != ref[:2]:
            return viol("load_untranslated_stream_differs_from_loads", op, {"load": _short(b[1]), "loads": _short(ref[1])}, **sig)
        # a stream built on a file descriptor: its .name is an int, not a path
        with os.fdopen(os.open(p, os.O_RDONLY), "r", encoding="utf-8", newline="") as fp:
            b2 = core.call(lambda: mf.load(fp, **kw))
        if b2[:2] != ref[:2] and "include" not in op["text"].lower():
            return viol("load_descriptor_stream_differs_from_loads", op, {"load": _short(b2[1]), "loads": _short(ref[1])}, **sig)
        c = core.call(lambda: mf.load(io.StringIO(op["text"], newline=""), **kw))
        if c[:2] != ref[:2]:
            return viol("load_stringio_differs_from_loads", op, {"load": _short(c[1]), "loads": _short(ref[1])}, **sig)
        # a stream the caller opened in default text mode: the caller chose newline translation,
        # so the reference is loads() of exactly what that stream delivers
        with open(p, "r", encoding="utf-8") as fp:
            seen = fp.read()
        with open(p, "r", encoding="utf-8") as fp:
            e = core.call(lambda: mf.load(fp, **kw))
        ref2 = core.call(lambda: mf.loads(seen, **kw))
        if e[:2] != ref2[:2]:
            return viol("load_text_stream_differs_from_loads_of_its_text", op, {"load": _short(e[1]), "loads": _short(ref2[1])}, **sig)
        bump("checked.loaders_agree")
        return None

    def op_writers(self, op, d, viol, bump):
        mf = self.mf
        kw = op["kw"]
        r0 = core.call(lambda: mf.loads(op["text"]))
        if r0[0] != "ok":
            bump("skipped.unparseable_generated_document")
            return None
        dct = r0[2]
        s = core.call(lambda: mf.dumps(dct, **kw))
        if s[0] != "ok":
            bump("skipped.dumps_refuses")
            return None
        text = s[2]
        outs = ["out.map", "out_$HOME.map", "out {x}.map", "w" * 251 + ".map", "é" * 125 + ".map", "out.map"]  # two of 255 / 254 bytes
        p = os.path.join(d, outs[len(text) % len(outs)])
        if len(text) % 2:
            with open(p, "wb") as f:  # the target already exists and is LONGER than what will be written
                f.write(b"# older, longer content\n" * 4000)
        elif len(text) % 4 == 0 and len(os.path.basename(p)) < 200:
            with open(p, "wb") as f:  # ... or holds the same text with the other line ends (saved on another platform)
                f.write(text.replace("\r\n", "\n").replace("\n", "\r\n").encode("utf-8") if "\r\n" not in text else text.replace("\r\n", "\n").encode("utf-8"))
        sv = core.call(lambda: mf.save(dct, p, **kw))
        if sv[0] != "ok":
            return viol("save_raised_but_dumps_did_not", op, sv[1])
        with open(p, "rb") as f:
            data = f.read()
        if data != text.encode("utf-8"):
            return viol("save_bytes_differ_from_dumps", op, {"save": data[:300].hex(), "dumps": text.encode("utf-8")[:300].hex()})
        buf = io.StringIO(newline="")
        dm = core.call(lambda: mf.dump(dct, buf, **kw))
        if dm[0] != "ok" or buf.getvalue() != text:
            return viol("dump_chars_differ_from_dumps", op, {"dump": _short(buf.getvalue()), "dumps": _short(text)})
        p2 = os.path.join(d, "out2.map")
        with open(p2, "w", encoding="utf-8", newline="") as fp:
            mf.dump(dct, fp, **kw)
        with open(p2, "rb") as f:
            if f.read() != data:
                return viol("dump_to_file_differs_from_save", op, {})
        # save -> open cycle, relational form: the file path adds nothing to the string path
        a = core.call(lambda: mf.open(p))
        b = core.call(lambda: mf.loads(text))
        has_cr = "\r" in text.replace(kw["newlinechar"], "") if kw["newlinechar"] != "\n" else "\r" in text
        sig = {"cr_inside_string_value": "yes" if has_cr else "no"}
        if a[:2] != b[:2]:
            return viol("open_of_saved_file_differs_from_loads_of_dumps", op, {"open": _short(a[1]), "loads": _short(b[1])}, **sig)
        # strict form where the string API itself round-trips: every string value survives save/open
        if b[0] == "ok" and b[1] == core.freeze(dct) and a[1] != core.freeze(dct):
            return viol("value_changed_by_save_open_cycle", op, {"open": _short(a[1]), "dict": _short(core.freeze(dct))}, **sig)
        bump("checked.writers_agree")
        return None

    TEMPLATE = 'MAP\n NAME "x"\n WEB\n METADATA\n "k" "v"\n END\n END\n LAYER\n NAME "l"\n TYPE POINT\n DATA "d"\n END\nEND'

    def op_cycle(self, op, d, viol, bump):
        """Ground truth known: string values are put into the dictionary through the dict API, so
        'any Unicode string value survives a save/open cycle unchanged' is checked against the value itself."""
        mf = self.mf
        dct = mf.loads(self.TEMPLATE)
        v0, v1, v2 = op["values"]
        dct["name"], dct["web"]["metadata"]["k"], dct["layers"][0]["data"] = v0, v1, v2
        p = os.path.join(d, "cycle.map")
        kw = {"newlinechar": op["newlinechar"], "quote": op["quote"], "indent": op["indent"]}
        sv = core.call(lambda: mf.save(dct, p, **kw))
        if sv[0] != "ok":
            return viol("save_raised", op, sv[1])

        def vals(x):
            return [x["name"], x["web"]["metadata"]["k"], x["layers"][0]["data"]]

        for how in ("open", "load", "loads_of_dumps"):
            if how == "open":
                r = core.call(lambda: vals(mf.open(p)))
            elif how == "load":
                with open(p, "r", encoding="utf-8", newline="") as fp:
                    r = core.call(lambda: vals(mf.load(fp)))
            else:
                r = core.call(lambda: vals(mf.loads(mf.dumps(dct, **kw))))
            if r[0] != "ok" or r[2] != [v0, v1, v2]:
                changed = [[repr(a), repr(b)] for a, b in zip([v0, v1, v2], r[2] if r[0] == "ok" else [None] * 3) if a != b]
                return viol("string_value_changed_by_save_" + how, op, {"changed": changed[:3], "error": r[1] if r[0] != "ok" else None}, how=how)
        bump("checked.values_survive_save_open")
        return None

    def op_format(self, op, d, viol, bump):
        mf = self.mf
        pin = os.path.join(d, "in.map")
        text = op["text"]
        has_include = False
        if op.get("include"):
            # one INCLUDE so that --expand / --no-expand matter
            with open(os.path.join(d, "inc.map"), "wb") as f:
                f.write('LAYER\n  NAME "included"\n  TYPE POINT\nEND\n'.encode())
            lines = text.split("\n")
            if lines and lines[0].strip().upper() == "MAP":
                lines.insert(1, '  INCLUDE "inc.map"')
                text = "\n".join(lines)
                has_include = True
        with open(pin, "wb") as f:
            f.write(text.encode("utf-8"))
        if op.get("symlink") and not op.get("in_place"):
            # IN is a symbolic link in another directory; the INCLUDE beside the LINK differs from the one beside the
            # real file: names resolve against the directory of the path that was given, as open(IN) does
            ld = os.path.join(d, "link")
            os.makedirs(ld)
            with open(os.path.join(ld, "inc.map"), "wb") as f:
                f.write('LAYER\n  NAME "beside the link"\n  TYPE LINE\nEND\n'.encode())
            os.symlink(pin, os.path.join(ld, "in.map"))
            pin = os.path.join(ld, "in.map")
        pout = pin if op.get("in_place") else os.path.join(d, "out.map" if len(text) % 5 else "o" * 251 + ".map")
        args = ["format", pin, pout]
        cli_cwd = None
        if not op.get("in_place") and len(text) % 3 == 0:
            # OUT given as a bare file name, the command run from the folder it goes to
            cli_cwd, args[2] = os.path.dirname(pout), os.path.basename(pout)
        skw = {}
        if op["indent"] is not None:
            args += ["--indent", op["indent"]]
            skw["indent"] = op["indent"]
        if op["spacer"] is not None:
            args += ["--spacer", op["spacer"]]
            skw["spacer"] = op["spacer"].encode().decode("unicode_escape")
        if op["quote"] is not None:
            args += ["--quote", op["quote"]]
            skw["quote"] = op["quote"]
        if op["newlinechar"] is not None:
            args += ["--newlinechar", op["newlinechar"]]
            skw["newlinechar"] = op["newlinechar"].encode().decode("unicode_escape")
        okw = {"include_position": True}
        if op["expand"] is not None:
            args.append("--expand" if op["expand"] else "--no-expand")
            okw["expand_includes"] = op["expand"]
        if op["comments"] is not None:
            args.append("--comments" if op["comments"] else "--no-comments")
            okw["include_comments"] = op["comments"]
        # reference first (IN may be overwritten by the command)
        pref = os.path.join(d, "ref.map")
        cwd0 = os.getcwd()
        ref = core.call(lambda: mf.save(mf.open(pin, **okw), pref, **skw))
        if op.get("existing_out") and not op.get("in_place") and ref[0] == "ok":
            # OUT already exists (an earlier formatting run): it must be overwritten with exactly the new output
            with open(pref, "rb") as f:
                want0 = f.read()
            nlc = skw.get("newlinechar", "\n").encode()
            pre = {"same": want0, "garbage": b"OLD CONTENT, LONGER THAN THE NEW ONE\n" * 2000,
                   "other_newlines": want0.replace(nlc, b"\r\n" if nlc == b"\n" else b"\n"),
                   "cr_variant": want0.replace(nlc, b"\r")}[op["existing_out"]]
            with open(pout, "wb") as f:
                f.write(pre)
        res = self.run_cli(args, cwd=cli_cwd)
        sig = {"in_place": "yes" if op.get("in_place") else "no", "existing_out": str(op.get("existing_out")), "symlinked_in": "yes" if op.get("symlink") else "no"}
        if ref[0] != "ok":
            if res["status"] == 0:
                return viol("format_succeeds_where_api_raises", op, {"api": ref[1], "cli": res}, **sig)
            bump("checked.format_both_fail")
            return None
        if res["status"] != 0:
            return viol("format_fails_where_api_succeeds", op, {"cli": res}, **sig)
        with open(pout, "rb") as f:
            got = f.read()
        with open(pref, "rb") as f:
            want = f.read()
        if got != want:
            return viol("format_output_differs_from_save_open", op, {"cli": got[:400].decode("utf-8", "replace"), "api": want[:400].decode("utf-8", "replace")}, **sig)
        bump("checked.format_equals_api")
        if has_include and not op.get("in_place") and not op.get("symlink"):
            # the included file is edited and the same command is run again: the long-lived process (this one) and the
            # new one must both show the file as it is now
            with open(os.path.join(d, "inc.map"), "wb") as f:
                f.write('LAYER\n  NAME "included, second edition"\n  TYPE LINE\nEND\n'.encode())
            ref = core.call(lambda: mf.save(mf.open(pin, **okw), pref, **skw))
            res = self.run_cli(args, cwd=cli_cwd)
            if ref[0] != "ok" or res["status"] != 0:
                return viol("format_after_include_edit_failed", op, {"api": ref[1], "cli": res}, **sig)
            with open(pout, "rb") as f:
                got = f.read()
            with open(pref, "rb") as f:
                want = f.read()
            if got != want:
                return viol("format_output_differs_from_save_open", op, {"after_include_edit": True, "cli": got[:400].decode("utf-8", "replace"),
                                                                          "api": want[:400].decode("utf-8", "replace")}, **sig)
            if op["expand"] is not False and b"second edition" not in got:
                return viol("format_shows_stale_include", op, {"cli": got[:400].decode("utf-8", "replace")}, **sig)
            bump("checked.format_after_include_edit")
        return None

    def op_validate(self, op, d, viol, bump):
        mf = self.mf
        paths = []
        expected_msgs = 0
        unparsed = 0
        matched = 0
        kinds = []
        odd = ["tiles_{z}", "x_{line}", "odd{", "set{}", "mapa ñ", "o'brien", "a&b", "percent%s", "cost_$HOME", "in_${PATH}"]
        for i, f in enumerate(op["files"]):
            stem = f"f{i}" if not op.get("odd_names") else f"{odd[(i + len(op['files'])) % len(odd)]}_{i}"
            p = os.path.join(d, f"{stem}.map")
            kind = f["kind"]
            kinds.append(kind)
            if kind == "valid":
                data = self.invalid_map(0).encode()
            elif kind == "invalid":
                data = self.invalid_map(f["n"]).encode()
            elif kind == "versioned":
                # valid up to 7.6 only (STYLE ANTIALIAS, LAYER TRANSPARENCY): the message count depends on --version
                data = (b'MAP\n  NAME "v"\n  LAYER\n    NAME "l"\n    TYPE POLYGON\n    CLASS\n      STYLE\n        ANTIALIAS TRUE\n'
                        b'      END\n    END\n  END\n'
                        # and one object with several problems of its own (no TYPE; a keyword of other versions): several
                        # messages carry the same position
                        b'  LAYER\n    NAME "l2"\n    OPACITY 50\n    TRANSPARENCY 50\n  END\nEND\n')
            elif kind == "unparseable":
                data = b'MAP\n  NAME "x"\n  LAYER\n END END END\n'
            elif kind == "selfinclude":
                data = f'MAP\n  NAME "x"\n  INCLUDE "{stem}.map"\nEND\n'.encode()  # includes itself: expansion fails
            elif kind == "bareinclude":
                data = b'MAP\n  NAME "x"\n  INCLUDE\nEND\n'
            elif kind == "missinginclude":
                data = b'MAP\n  NAME "x"\n  INCLUDE "nothere.map"\nEND\n'
            elif kind == "undecodable":
                data = b'MAP\n  NAME "\xff\xfe\xfa"\nEND\n'
            elif kind == "empty":
                data = b""
            elif kind == "dir":
                os.makedirs(p)
                paths.append(p)
                continue
            else:  # missing
                paths.append(p)
                continue
            with open(p, "wb") as fh:
                fh.write(data)
            paths.append(p)
        version = op["version"]
        expand = op.get("expand")
        # reference through the API, file by file
        for p, kind in zip(paths, kinds):
            if kind in ("dir", "missing"):
                continue  # not a matched Mapfile
            matched += 1
            r = core.call(lambda: mf.open(p, include_position=True, **({"expand_includes": expand} if expand is not None else {})))
            if r[0] != "ok":
                unparsed += 1
                continue
            v = core.call(lambda: mf.validate(r[2], version if version is not None else 8.2))
            if v[0] != "ok":
                return viol("api_validate_raised", op, v[1])
            expected_msgs += len(v[2])
        args = ["validate"] + ([os.path.join(d, "*.map")] if op.get("glob") else paths)
        if op.get("glob"):
            pass  # same set: directories are filtered out by the command, missing files do not match
        if version is not None:
            args += ["--version", version]
        if expand is False:
            args.append("--no-expand")
        res = self.run_cli(args)
        lines = res["stdout"].splitlines()
        # a message line names the file it is about and is neither the per-file verdict nor the summary
        msg_lines = [l for l in lines if any(l.startswith(p_) for p_ in paths) and not l.rstrip().endswith(("validated successfully", "failed to parse successfully"))]
        problems = expected_msgs + unparsed
        sig = {"unparsed_files": "yes" if unparsed else "no", "messages": str(expected_msgs) if expected_msgs in (0, 256, 512) else ("1-255" if expected_msgs < 256 else ">255"),
               "problems_mod_256_is_zero": "yes" if problems and problems % 256 == 0 else "no"}
        bump("fault.unparseable_or_undecodable_files", unparsed)
        if expected_msgs >= 254:
            bump("reach.validate_at_status_boundary")
        if len(msg_lines) != expected_msgs:
            return viol("validate_message_lines", op, {"printed": len(msg_lines), "api": expected_msgs, "stdout_tail": lines[-3:]}, **sig)
        st = res["status"]
        if problems == 0 and st != 0:
            return viol("validate_nonzero_status_without_problems", op, {"status": st, "stdout_tail": lines[-3:]}, **sig)
        if problems > 0 and st == 0:
            return viol("validate_status_zero_despite_problems", op, {"status": st, "messages": expected_msgs, "unparsed_files": unparsed, "matched": matched}, **sig)
        if 0 < problems <= 255 and st != problems:
            return viol("validate_status_not_problem_count", op, {"status": st, "messages": expected_msgs, "unparsed_files": unparsed}, **sig)
        bump("checked.validate_status_and_lines")
        return None

    def op_schema(self, op, d, viol, bump):
        from mappyfile.validator import Validator

        # (one version in three: a name of exactly the longest length a directory entry can have)
        pout = os.path.join(d, "schema.json" if str(op["version"])[-1:] not in ("6", "2") else "s" * 250 + ".json")
        args = ["schema", pout] + (["--version", op["version"]] if op["version"] is not None else [])
        res = self.run_cli(args)
        if res["status"] != 0:
            return viol("schema_command_failed", op, res)
        want = json.dumps(Validator().get_versioned_schema(op["version"]), sort_keys=True, indent=4)
        with open(pout, "rb") as f:
            got = f.read()
        if got != want.encode("utf-8"):
            return viol("schema_file_differs_from_api", op, {"len_cli": len(got), "len_api": len(want)})
        bump("checked.schema_equals_api")
        return None

    # ------------------------------------------------------------ calibration of the exit-status model
    def extra_phases(self, tier, seed, report):
        n = 6 if tier == "quick" else 60
        tmp = tempfile.mkdtemp(prefix="verif-c20cal-", dir=core.TMPBASE)
        mism = []
        try:
            specs = [[0], [1], [3], [255], [256], [257], [2, "unparseable"], ["unparseable"], [0, 0], ["undecodable", 1]]
            for i in range(n):
                spec = specs[i % len(specs)]
                d = os.path.join(tmp, f"c{i}")
                os.makedirs(d)
                paths = []
                for j, x in enumerate(spec):
                    p = os.path.join(d, f"f{j}.map")
                    with open(p, "wb") as fh:
                        if x == "unparseable":
                            fh.write(b"MAP END END")
                        elif x == "undecodable":
                            fh.write(b'MAP NAME "\xff" END')
                        else:
                            fh.write(self.invalid_map(x).encode())
                    paths.append(p)
                args = ["validate"] + paths

                def inproc():
                    return self.run_cli(args)

                a = core.in_fork(inproc)
                b = self.run_cli_subprocess(args, d)
                if a["status"] != b["status"] or a["stdout"].splitlines() != b["stdout"].splitlines():
                    mism.append({"args": spec, "in_process": a["status"], "subprocess": b["status"],
                                 "stdout_equal": a["stdout"].splitlines() == b["stdout"].splitlines()})
        finally:
            shutil.rmtree(tmp, ignore_errors=True)
        report["extra"]["exit_status_model_calibration_runs"] = n
        report["extra"]["exit_status_model_calibration_mismatches"] = mism
        if mism:
            report["harness_errors"].append("exit-status model disagrees with real subprocesses: " + json.dumps(mism)[:600])

    def shrink_candidates(self, case):
        for i, op in enumerate(case["ops"]):
            if op["op"] == "validate" and len(op["files"]) > 1:
                for j in range(len(op["files"])):
                    yield core.set_path(case, ["ops", i, "files"], op["files"][:j] + op["files"][j + 1:])
            if "text" in op:
                lines = op["text"].split("\n")
                for cut in (len(lines) // 2, len(lines) // 4, 1):
                    if cut >= 1:
                        for start in range(1, max(2, len(lines) - cut), max(1, cut)):
                            yield core.set_path(case, ["ops", i, "text"], "\n".join(lines[:start] + lines[start + cut:]))

    def describe_case(self, case):
        c = {"prop": case["prop"], "seed": case["seed"], "ops": []}
        for op in case["ops"]:
            o = dict(op)
            if "text" in o and len(o["text"]) > 400:
                o["text"] = o["text"][:400] + "..."
            c["ops"].append(o)
        return c


def _short(x, n=900):
    s = json.dumps(x, default=str)
    return s if len(s) <= n else s[:n] + "..."


if __name__ == "__main__":
    core.main(C20(), os.path.abspath(__file__))
