#!/venv/bin/python
"""C09 - version-aware validation follows minVersion / maxVersion.

Histories of validate / schema-export / create calls with differing versions on
ONE long-lived Validator (plus module-level calls in the same process), checked
after every operation against a small immutable reference model (sim/c09model:
raw schema files filtered by version at every depth, jsonschema + Registry; no
expansion, no cache, no in-place edits) and against a fresh Validator. Each run
first walks its slice of the finite alphabet - every annotated schema entry x
every parent chain x versions just below / at / just above each bound - so the
whole alphabet is visited several times per quick batch, then continues with a
random history biased towards revisiting an entry at another version. Faults:
EIO/ENOENT at the k-th schema read, which lands inside lazy $ref loading in the
middle of in-place pruning; afterwards the invariants must hold again at the
first fault-free attempt.
"""
import math
import os
import sys

sys.path.insert(0, os.path.dirname(os.path.dirname(os.path.abspath(__file__))))
from sim import core  # noqa: E402

if __name__ == "__main__":
    core.bootstrap()

import hashlib  # noqa: E402
import json  # noqa: E402

from sim import simfs  # noqa: E402
from sim.c09model import Model  # noqa: E402

try:
    import numpy as NP  # optional: only used to hand in versions of a float SUBCLASS
except Exception:  # noqa: BLE001
    NP = None

GRID = [round(4.0 + 0.2 * i, 1) for i in range(23)]
EXPORT_NAMES = ["style", "label", "scalebar", "legend", "web", "class", "symbol", "leader", "reference", "querymap"]


def keys_of(messages):
    return sorted(m["message"].replace("ERROR: Invalid value in ", "") for m in messages)


class C09(core.Check):
    pid = "C09"
    level = "exploration"
    quick_runs = 640
    thorough_runs = 60000
    quick_budget_s = 45.0
    thorough_budget_s = 1500.0
    chunk = 4
    run_timeout_s = 120.0
    isolate = True
    rule = (
        "one evaluation = one history on one long-lived Validator: first a slice of the alphabet (annotated entry x "
        "parent chain from a root type x {no version, bound-0.1, bound-0.01, bound, bound+0.01, bound+0.1, the neighbouring floats of the bound, bound*(1+-4e-10)}), then "
        "10-40 random operations (validate through the long-lived Validator / mappyfile.validate / a fresh one, "
        "get_versioned_schema / get_expanded_schema export, mappyfile.create) over versions 4.0-8.4 incl. ints, "
        "biased to revisit the same entry at another version; 30% of histories carry 1-2 schema-read faults. After "
        "every operation: verdict (accept/reject + offending keywords) == reference model; with probability 0.15 "
        "== fresh Validator; exported versioned schema holds no entry excluded at that version at any depth and "
        "equals a fresh export; version-less export unchanged. distinct = digest of the operation list; non-trivial "
        "= the history asks the long-lived Validator about >= 2 different versions of one schema name. "
        "coverage_pairs_reached = distinct (entry, root, chain, version relation) alphabet items visited."
    )
    assumptions = [
        "message wording and error order are not compared (jsonschema prints OrderedDict vs dict differently); only accept/reject "
        "and the multiset of offending keywords",
        "values are synthesised valid for their keyword so that no error path ends inside a list value (that raises TypeError "
        "on this tree: C07's territory, fenced off)",
        "version 0 / 0.0 mean 'no version' in the API and are not generated",
    ]
    real_components = ["mappyfile.validator.Validator", "mappyfile.utils.validate/create", "jsonref lazy expansion", "jsonschema", "referencing"]
    stubbed_components = ["schema-file reads go through sim/simfs.py's dispatcher (real files underneath) so that read faults can be placed"]

    def setup(self):
        self.mf = core.import_repo()
        simfs.install()
        from mappyfile.validator import Validator

        self.Validator = Validator
        self.model = Model(os.path.join(core.REPO, "mappyfile", "schemas"))
        m = self.model
        alpha = []
        self.unsynth = []
        for e in m.entries:
            for root in m.object_types:
                for ch in (m.chains(root, e["file"]) if root != e["file"] else [[]]):
                    try:
                        alpha.append({"entry": e["id"], "root": root, "chain": [c[0] for c in ch], "doc": m.doc_for(e, root, ch),
                                      "bounds": [b for b in (e["min"], e["max"]) if b is not None]})
                    except ValueError as ex:
                        self.unsynth.append(e["id"] + ": " + str(ex)[:80])
        alpha.sort(key=lambda a: (a["root"], a["entry"], a["chain"]))
        self.alpha = alpha

    def extra_phases(self, tier, seed, report):
        rels = 6
        report["extra"]["alphabet_items"] = len(self.alpha)
        report["extra"]["alphabet_item_x_version_relations"] = sum(1 + 9 * len(a["bounds"]) for a in self.alpha)
        report["extra"]["annotated_entries"] = len(self.model.entries)
        report["extra"]["entries_without_synthesised_document"] = self.unsynth

    # ------------------------------------------------------------ generate
    SLICE = 6

    def versions_for(self, item):
        out = [[None, "none"]]
        for b in item["bounds"]:
            out += [[round(b - 0.1, 2), "below"], [round(b - 0.01, 2), "just-below"], [b, "at"],
                    [round(b + 0.01, 2), "just-above"], [round(b + 0.1, 2), "above"],
                    # the neighbouring floats (what nextafter, an accumulated 0.1 step or a parsed "7.6000000001" gives)
                    [math.nextafter(b, math.inf), "ulp-above"], [math.nextafter(b, -math.inf), "ulp-below"],
                    [b * (1 + 4e-10), "1e-10-above"], [b * (1 - 4e-10), "1e-10-below"]]
        return out

    def generate_idx(self, seed, tier, idx):
        s = core.Streams(seed)
        k, r = s("knobs"), s("ops")
        n = len(self.alpha)
        start = (idx * self.SLICE) % n
        ops = []
        items = [self.alpha[(start + j) % n] for j in range(self.SLICE)]
        for it in items:
            vs = self.versions_for(it)
            r.shuffle(vs)
            for v, rel in vs:
                ops.append({"op": "validate", "item": it, "version": v, "rel": rel, "via": "validator"})
        r.shuffle(ops)
        # random tail
        last = None
        for _ in range(k.choice([10, 20, 40])):
            c = r.random()
            if c < 0.6:
                it = last if (last is not None and r.random() < 0.5) else self.alpha[r.randrange(n)]
                last = it
                if r.random() < 0.6:
                    v, rel = r.choice(self.versions_for(it))
                else:
                    v, rel = r.choice(GRID + [7, 8, 6, 5, 7.0, 8.0]), "grid"
                via = r.choice(["validator", "validator", "validator", "module", "fresh"])
                if via == "module" and it["root"] != "map":
                    via = "validator"
                ops.append({"op": "validate", "item": it, "version": v, "rel": rel, "via": via, "as_list": r.random() < 0.1, "np_version": r.random() < 0.06})
            elif c < 0.8:
                ops.append({"op": "export", "schema": r.choice(EXPORT_NAMES + ([last["root"]] if last and last["root"] not in ("map", "layer") else [])),
                            "version": r.choice([None, None] + GRID + [7, 8]) if r.random() < 0.7 else (last["bounds"][0] if last else 7.6),
                            "hold": r.random() < 0.3})
            else:
                ops.append({"op": "create", "type": r.choice(["map", "layer", "class", "style", "label", "symbol", "web", "legend", "scalebar"]),
                            "version": r.choice([None] + GRID + [7, 8])})
        faults = []
        if k.random() < 0.3:
            f = s("faults")
            for _ in range(f.choice([1, 1, 2])):
                faults.append({"op": f.choice(["open", "read"]), "cls": "schema", "k": f.choice([1, 2, 3, 5, 8, 13, 21, 34, 55, 89, 144]),
                               "err": f.choice(["EIO", "ENOENT"])})
        return {"prop": "C09", "seed": seed, "ops": ops, "faults": faults, "p_fresh": k.choice([0.05, 0.15, 0.3])}

    def generate(self, seed, tier):
        return self.generate_idx(seed, tier, seed % 100000)

    # ------------------------------------------------------------ execute
    def export_digest(self, v, name, version):
        sch = v.get_versioned_schema(version, name)
        return hashlib.sha256(json.dumps(sch, sort_keys=True, indent=1).encode()).hexdigest()

    def excluded_nodes(self, sch, version):
        """JSON pointers of nodes in an exported (expanded) schema whose metadata excludes `version`."""
        bad = []
        stack = [(sch, "")]
        n = 0
        while stack:
            node, ptr = stack.pop()
            n += 1
            if n > 400000:
                break
            if isinstance(node, dict):
                md = node.get("metadata")
                if isinstance(md, dict) and not Model.in_range(md, version) and ptr != "":
                    bad.append(ptr)  # (the root is the type that was asked for: not an "entry" of the export)
                for kk, c in node.items():
                    if kk != "metadata":
                        stack.append((c, ptr + "/" + str(kk)))
            elif isinstance(node, list):
                for i, c in enumerate(node):
                    stack.append((c, ptr + "/" + str(i)))
        return bad

    def execute(self, case):
        mf, m = self.mf, self.model
        stats = {}

        def bump(k, n=1):
            stats[k] = stats.get(k, 0) + n

        def viol(inv, op, detail, **sig):
            o = {k: v for k, v in op.items() if k != "item"}
            if "item" in op:
                o["entry"], o["root"], o["chain"] = op["item"]["entry"], op["item"]["root"], op["item"]["chain"]
            return {"invariant": inv, "kind": op["op"], "sig": dict(sig, op=op["op"], after_fault="yes" if fs.fired_faults else "no"),
                    "detail": detail, "op": o}

        fs = simfs.SimFS({}, cwd="/", faults=case.get("faults", []))
        clean = simfs.SimFS({}, cwd="/")
        V = self.Validator()
        rng = core.Streams(case.get("seed", 0))("oracle")  # which ops are also compared with a fresh Validator
        violation = None
        cover = set()
        asked = {}
        steps = 0
        trace = []
        held = []
        for op in case["ops"]:
            steps += 1
            name = op["op"]
            fired_before = len(fs.fired_faults)
            ver = op.get("version")
            if op.get("np_version") and ver and NP is not None:
                ver = NP.float64(ver)  # a float subclass, as numpy.nextafter() or an array element gives
            also_fresh = rng.random() < case.get("p_fresh", 0.15)
            if name == "validate":
                it = op["item"]
                doc, root = it["doc"], it["root"]
                want = m.verdict(doc, root, ver)
                if op.get("as_list"):
                    doc = [doc, doc]  # a list of root dictionaries is taken one by one
                    want = sorted(want + want)
                with simfs.mounted(fs):
                    if op["via"] == "validator":
                        got = core.call(lambda: V.validate(doc, schema_name=root, version=ver))
                        asked.setdefault(root, set()).add(ver)
                    elif op["via"] == "module":
                        got = core.call(lambda: mf.validate(doc, version=ver))
                    else:
                        got = core.call(lambda: self.Validator().validate(doc, schema_name=root, version=ver))
                bump("op.validate." + op["via"])
                faulted = len(fs.fired_faults) > fired_before
                if not faulted:
                    if got[0] != "ok":
                        violation = viol("validate_raised", op, got[1], entry=it["entry"], root=root, rel=op.get("rel"))
                        break
                    have = keys_of(got[2])
                    if have != want:
                        violation = viol("verdict_differs_from_model", op, {"code": have, "model": want, "doc": doc, "version": ver},
                                         entry=it["entry"], root=root, chain="/".join(it["chain"]), rel=op.get("rel"))
                        break
                    cover.add(f"{it['entry']}|{root}|{'/'.join(it['chain'])}|{op.get('rel')}")
                    if also_fresh and op["via"] == "validator":
                        with simfs.mounted(clean):
                            fr = core.call(lambda: self.Validator().validate(doc, schema_name=root, version=ver))
                        if fr[:2] != got[:2]:
                            violation = viol("long_lived_differs_from_fresh", op, {"long_lived": got[1], "fresh": fr[1]}, entry=it["entry"], root=root)
                            break
                        bump("checked.vs_fresh_validator")
            elif name == "export" and op.get("hold") and ver and not case.get("faults"):
                # the caller asks for the schema and puts it aside unread (to write it out later): what it holds when
                # it finally reads it must still be the schema of THAT version, whatever was asked in between
                sname = op["schema"]
                with simfs.mounted(fs):
                    try:
                        obj_ = V.get_versioned_schema(ver, sname)  # (not looked at: core.call would read all of it)
                    except Exception as e_:  # noqa: BLE001
                        violation = viol("export_raised", op, core.exc_repr(e_), schema=sname)
                        break
                    asked.setdefault(sname, set()).add(ver)
                bump("op.export_held")
                held.append((op, sname, ver, obj_))
                got = ("ok", "held", None)
            elif name == "export":
                sname = op["schema"]
                with simfs.mounted(fs):
                    got = core.call(lambda: self.export_digest(V, sname, ver))
                    asked.setdefault(sname, set()).add(ver)
                bump("op.export")
                faulted = len(fs.fired_faults) > fired_before
                if not faulted:
                    if got[0] != "ok":
                        violation = viol("export_raised", op, got[1], schema=sname)
                        break
                    if ver:
                        with simfs.mounted(fs):
                            bad = self.excluded_nodes(V.get_versioned_schema(ver, sname), ver)
                        if bad:
                            violation = viol("export_contains_excluded_entry", op, {"pointers": bad[:8], "count": len(bad)}, schema=sname)
                            break
                    if also_fresh or not ver:
                        with simfs.mounted(clean):
                            fr = core.call(lambda: self.export_digest(self.Validator(), sname, ver))
                        if fr[:2] != got[:2]:
                            inv = "versionless_export_changed_by_history" if not ver else "export_differs_from_fresh"
                            violation = viol(inv, op, {"long_lived": got[1], "fresh": fr[1]}, schema=sname)
                            break
                        bump("checked.export_vs_fresh")
            elif name == "create":
                with simfs.mounted(fs):
                    got = core.call(lambda: mf.create(op["type"], ver))
                bump("op.create")
                faulted = len(fs.fired_faults) > fired_before
                if not faulted:
                    # relational: the version-less object (from the code itself) minus the keywords the model excludes at ver
                    with simfs.mounted(clean):
                        base = core.call(lambda: mf.create(op["type"], None))
                    rawp = m.raw[op["type"]].get("properties", {})
                    want = [[k, v] for k, v in (base[2].items() if base[0] == "ok" else [])
                            if k == "__type__" or not (ver and m.excluded(rawp.get(k), ver))]
                    if got[0] != "ok":
                        violation = viol("create_raised", op, got[1], type=op["type"])
                        break
                    have = [[k, v] for k, v in got[2].items()]
                    if json.dumps(have, default=str) != json.dumps(want, default=str):
                        violation = viol("create_differs_from_model", op, {"code": have, "model": want}, type=op["type"])
                        break
            else:
                raise core.HarnessError(f"unknown op {op}")
            trace.append([name, got[0], core.digest(got[1]) if got[0] == "ok" else got[1][1], len(fs.history)])
            if len(fs.fired_faults) > fired_before:
                for f in fs.fired_faults[fired_before:]:
                    bump(f"fault.{f['op']}_schema_{f['err']}")
                bump("faulted_calls")
        if not violation:
            for op_, sname, ver, obj in held:
                with simfs.mounted(fs):
                    late = core.call(lambda: hashlib.sha256(json.dumps(obj, sort_keys=True, indent=1).encode()).hexdigest())
                with simfs.mounted(clean):
                    fr = core.call(lambda: self.export_digest(self.Validator(), sname, ver))
                bump("checked.held_export_vs_fresh")
                if late[:2] != fr[:2]:
                    violation = viol("held_export_changed_by_later_calls", op_, {"held": late[1], "fresh": fr[1]}, schema=sname)
                    break
        nontrivial = any(len(vs) >= 2 for vs in asked.values())
        ops_d = [{k: (v if k != "item" else [v["entry"], v["root"], v["chain"]]) for k, v in op.items()} for op in case["ops"]]
        return {"violation": violation, "digest": core.digest([ops_d, case.get("faults"), trace]), "nontrivial": nontrivial,
                "stats": stats, "steps": steps, "cover": sorted(cover)}

    def shrink_fields(self, case):
        return [["ops"], ["faults"]]

    def describe_case(self, case):
        c = dict(case)
        c["ops"] = [{k: (v if k != "item" else {"entry": v["entry"], "root": v["root"], "chain": v["chain"], "doc": v["doc"]}) for k, v in op.items()}
                    for op in case["ops"][:12]] + [f"... {max(0, len(case['ops']) - 12)} more operations"]
        return c


if __name__ == "__main__":
    core.main(C09(), os.path.abspath(__file__))
