#!/venv/bin/python
"""Confirm a seeded change produced by a sub-agent and file it under /verif/seeded/<id>/.

  tools_seeded.py confirm /tmp/seeded/C18-1 [...]   in a scratch worktree of /repo HEAD:
        patch applies; demo fails with it; repo suite unchanged (249 stable tests pass);
        demo passes without it. On success copies patch.diff, demo, meta.json (+ what was run).
  tools_seeded.py run <check-id> <seeded-id> [tier]  run one registered check against one filed patch
  tools_seeded.py matrix [tier]                      every filed patch x the check of its property
"""
import glob
import json
import os
import shutil
import subprocess
import sys

VERIF = os.path.dirname(os.path.abspath(__file__))
SEEDED = os.path.join(VERIF, "seeded")
PY = "/venv/bin/python"
SUITE = [PY, "-m", "pytest", "-q", "-p", "no:cacheprovider", "--timeout=900", "--continue-on-collection-errors", "-x", "--deselect", "tests/test_map_collection.py::test_maps"]


def sh(cmd, cwd=None, timeout=1800, env=None):
    p = subprocess.run(cmd, cwd=cwd, capture_output=True, text=True, timeout=timeout, env=env)
    return p.returncode, (p.stdout + p.stderr)


def confirm(src):
    sid = os.path.basename(src.rstrip("/"))
    wt = f"/tmp/wtc/{sid}"
    os.makedirs("/tmp/wtc", exist_ok=True)
    sh(["git", "-C", "/repo", "worktree", "remove", "--force", wt])
    rc, out = sh(["git", "-C", "/repo", "worktree", "add", "--detach", wt, "HEAD"])
    if rc:
        return sid, False, "worktree: " + out
    try:
        patch = os.path.join(src, "patch.diff")
        demo = next(iter(glob.glob(os.path.join(src, "demo*.py"))), None)
        if not demo:
            return sid, False, "no demo"
        democmd = [PY, demo] if not os.path.basename(demo).endswith("_test.py") else [PY, "-m", "pytest", "-q", "-p", "no:cacheprovider", demo]
        env = dict(os.environ)
        env["PYTHONDONTWRITEBYTECODE"] = "1"
        rc0, out0 = sh(democmd, cwd=wt, env=env)
        if rc0 != 0:
            return sid, False, "demo fails WITHOUT the change on current HEAD:\n" + out0[-800:]
        rc, out = sh(["git", "-C", wt, "apply", patch])
        if rc:
            return sid, False, "patch does not apply to current HEAD: " + out
        rc1, out1 = sh(democmd, cwd=wt, env=env)
        if rc1 == 0:
            return sid, False, "demo passes WITH the change"
        rc2, out2 = sh(SUITE, cwd=wt, env=env)
        tail = out2.strip().splitlines()[-1] if out2.strip() else ""
        if rc2 != 0 or "249 passed" not in tail:
            return sid, False, "suite changed with the patch: " + tail + "\n" + out2[-1500:]
        dst = os.path.join(SEEDED, sid)
        os.makedirs(dst, exist_ok=True)
        shutil.copy(patch, os.path.join(dst, "patch.diff"))
        shutil.copy(demo, os.path.join(dst, os.path.basename(demo)))
        meta = {}
        mp = os.path.join(src, "meta.json")
        if os.path.exists(mp):
            try:
                meta = json.load(open(mp))
            except Exception:
                meta = {"raw": open(mp).read()}
        head = sh(["git", "-C", "/repo", "rev-parse", "--short", "HEAD"])[1].strip()
        meta["confirmed_by_me"] = {
            "repo_head": head,
            "ran": [
                f"git worktree add --detach {wt} HEAD",
                "demo without patch -> exit 0",
                f"git apply patch.diff; demo with patch -> exit {rc1}",
                "repo suite with patch (test_maps deselected: always fails offline): " + tail,
            ],
        }
        json.dump(meta, open(os.path.join(dst, "meta.json"), "w"), indent=1)
        return sid, True, tail
    finally:
        sh(["git", "-C", "/repo", "worktree", "remove", "--force", wt])


def run(pid, sid, tier="quick"):
    env = dict(os.environ)
    env.pop("VERIF_BOOTSTRAPPED", None)
    rc, out = sh([PY, os.path.join(VERIF, "sim", "selftest.py"), "patch", pid, os.path.join(SEEDED, sid, "patch.diff"), tier], env=env, timeout=3600)
    lines = [l for l in out.splitlines() if l.startswith(("VIOLATION", "  invariant=", "KNOWN", "HARNESS")) or " quick:" in l or " thorough:" in l]
    caught = any(l.startswith(f"VIOLATION property={pid}") for l in lines)
    return caught, lines


def matrix(tier="quick"):
    from concurrent.futures import ThreadPoolExecutor

    sids = sorted(d for d in os.listdir(SEEDED) if os.path.isdir(os.path.join(SEEDED, d)) and not d.startswith("_"))
    res = {}
    with ThreadPoolExecutor(max_workers=int(os.environ.get("VERIF_MATRIX_PAR", "1"))) as ex:
        def pid_of(sid):
            try:
                return json.load(open(os.path.join(SEEDED, sid, "meta.json"))).get("run_with_check") or sid.split("-")[0]
            except Exception:
                return sid.split("-")[0]

        futs = {sid: ex.submit(run, pid_of(sid), sid, tier) for sid in sids}
        for sid, f in futs.items():
            caught, lines = f.result()
            res[sid] = caught
            inv = next((l.strip() for l in lines if l.startswith("  invariant=")), "")
            print(f"{sid}: {'CAUGHT' if caught else 'MISSED'} {inv[:160]}")
            sys.stdout.flush()
    print(f"{sum(res.values())}/{len(res)} seeded changes caught at tier {tier}")
    return res


if __name__ == "__main__":
    cmd = sys.argv[1]
    if cmd == "confirm":
        from concurrent.futures import ThreadPoolExecutor

        with ThreadPoolExecutor(max_workers=6) as ex:
            for sid, ok, msg in ex.map(confirm, sys.argv[2:]):
                print(f"{sid}: {'CONFIRMED' if ok else 'REJECTED'} {msg}")
                sys.stdout.flush()
    elif cmd == "run":
        caught, lines = run(sys.argv[2], sys.argv[3], sys.argv[4] if len(sys.argv) > 4 else "quick")
        print("\n".join(lines))
        print("CAUGHT" if caught else "MISSED")
    elif cmd == "matrix":
        matrix(sys.argv[2] if len(sys.argv) > 2 else "quick")
