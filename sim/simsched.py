"""
simsched - deterministic scheduling of real threads.

Real threading.Thread objects run the real public functions of the code under
test; *who runs* is decided here. Pre-emption points are sys.monitoring LINE
events enabled (set_local_events) only on selected code objects - the modules
of the repository, optionally some dependency modules - so everything else runs
atomically and a thread is never parked inside stdlib / dependency code that
may hold a lock. Exactly one worker thread is runnable at any time (baton
passing over per-thread semaphores).

Blocking is simulated, not suffered: install_lock_seam() replaces the
threading primitives by factories that hand out simulator-aware objects when
the creating frame belongs to an instrumented (repo) file, so a thread that is
parked while holding such a lock never hangs the baton holder; "all blocked,
none runnable" is reported as a deadlock of the code under test.

A schedule is consumed from a generator (seeded random walk / PCT-style
priorities / starvation) or from a recorded list of segments [thread, n_steps];
the schedule actually taken is always recorded as such a list, which is what a
replay file contains.
"""

from __future__ import annotations

import _thread
import hashlib
import random
import sys
import threading
import types

_RealLock = _thread.allocate_lock
_RealSemaphore = threading.Semaphore
_RealThread = threading.Thread

TOOL_ID = 3  # sys.monitoring tool slot used by the simulator
mon = sys.monitoring
_installed = {"tool": False, "codes": set(), "files": ()}

CURRENT = None  # the Scheduler of the run in progress (one at a time per process)
COUNT = [0, False]  # [line steps seen outside a simulation, counting enabled]


class SimAbort(BaseException):
    """Raised inside worker threads to unwind them when a run is aborted."""


class Deadlock(Exception):
    pass


# ---------------------------------------------------------------- instrumentation


def code_objects_of_modules(mods):
    seen = set()
    out = []

    def add_code(co):
        if co in seen:
            return
        seen.add(co)
        out.append(co)
        for c in co.co_consts:
            if isinstance(c, types.CodeType):
                add_code(c)

    def add_obj(o, depth=0):
        if depth > 3:
            return
        if isinstance(o, (staticmethod, classmethod)):
            o = o.__func__
        if isinstance(o, property):
            for f in (o.fget, o.fset, o.fdel):
                if f is not None:
                    add_obj(f, depth + 1)
            return
        w = getattr(o, "__wrapped__", None)
        if w is not None and w is not o:
            add_obj(w, depth + 1)
        co = getattr(o, "__code__", None)
        if isinstance(co, types.CodeType):
            add_code(co)
        if isinstance(o, type):
            for v in list(vars(o).values()):
                add_obj(v, depth + 1)

    files = set()
    for m in mods:
        f = getattr(m, "__file__", None)
        if f:
            files.add(f)
    for m in mods:
        for v in list(vars(m).values()):
            add_obj(v)
    # keep only code that was defined in one of the modules' files
    out = [co for co in out if co.co_filename in files]
    return out, tuple(sorted(files))


def install(code_objects, files):
    """Enable LINE events on the given code objects (idempotent, additive)."""
    if not _installed["tool"]:
        if mon.get_tool(TOOL_ID) is None:
            mon.use_tool_id(TOOL_ID, "mappyfile-dsim")
        mon.register_callback(TOOL_ID, mon.events.LINE, _on_line)
        _installed["tool"] = True
    n = 0
    for co in code_objects:
        if co not in _installed["codes"]:
            mon.set_local_events(TOOL_ID, co, mon.events.LINE)
            _installed["codes"].add(co)
            n += 1
    _installed["files"] = tuple(sorted(set(_installed["files"]) | set(files)))
    return n


def uninstall(code_objects):
    for co in code_objects:
        if co in _installed["codes"]:
            mon.set_local_events(TOOL_ID, co, 0)
            _installed["codes"].discard(co)


def _on_line(code, line):
    s = CURRENT
    if s is None:
        if COUNT[1]:
            COUNT[0] += 1
        return None
    w = s.by_ident.get(_thread.get_ident())
    if w is None:
        return None
    s.on_step(w, code, line)
    return None


# ---------------------------------------------------------------- lock seam

_seam = {"installed": False, "repo_prefixes": ()}


def install_lock_seam(repo_prefixes):
    """Must run before the repo is imported. Primitives created from a frame
    whose file lies under repo_prefixes are simulator-aware."""
    if _seam["installed"]:
        return
    _seam["installed"] = True
    _seam["repo_prefixes"] = tuple(repo_prefixes)
    _seam["orig"] = {k: getattr(threading, k) for k in ("Lock", "RLock", "Condition", "Event", "Semaphore", "BoundedSemaphore")}

    def from_repo():
        f = sys._getframe(2)
        return f.f_code.co_filename.startswith(_seam["repo_prefixes"])

    def Lock():
        return SimLock(False) if from_repo() else _seam["orig"]["Lock"]()

    def RLock(*a, **k):
        return SimLock(True) if from_repo() else _seam["orig"]["RLock"](*a, **k)

    def Event():
        return SimEvent() if from_repo() else _seam["orig"]["Event"]()

    def Semaphore(value=1):
        return SimSemaphore(value) if from_repo() else _seam["orig"]["Semaphore"](value)

    def Condition(lock=None):
        if from_repo():
            raise NotImplementedError("simsched: threading.Condition created by repo code is not simulated")
        return _seam["orig"]["Condition"](lock)

    threading.Lock = Lock
    threading.RLock = RLock
    threading.Event = Event
    threading.Semaphore = Semaphore
    threading.BoundedSemaphore = Semaphore
    threading.Condition = Condition


def _me():
    s = CURRENT
    if s is None:
        return None, None
    return s, s.by_ident.get(_thread.get_ident())


class SimLock:
    """Lock / RLock whose blocking is a scheduling decision of the simulator."""

    def __init__(self, reentrant):
        self.reentrant = reentrant
        self.owner = None  # worker index, or ('os', ident) outside the simulation
        self.count = 0

    def _ident(self):
        s, w = _me()
        return ("w", w.idx) if w is not None else ("os", _thread.get_ident())

    def acquire(self, blocking=True, timeout=-1):
        me = self._ident()
        while True:
            if self.owner is None:
                self.owner, self.count = me, 1
                return True
            if self.reentrant and self.owner == me:
                self.count += 1
                return True
            if not blocking:
                return False
            s, w = _me()
            if w is None:
                raise Deadlock("simulated lock held while acquired from outside the simulation")
            s.block_on(w, self)

    def release(self):
        if self.owner is None:
            raise RuntimeError("release unlocked lock")
        self.count -= 1
        if self.count == 0:
            self.owner = None
            s = CURRENT
            if s is not None:
                s.wake(self)

    def locked(self):
        return self.owner is not None

    __enter__ = acquire

    def __exit__(self, *a):
        self.release()


class SimEvent:
    def __init__(self):
        self.flag = False

    def is_set(self):
        return self.flag

    def set(self):
        self.flag = True
        s = CURRENT
        if s is not None:
            s.wake(self)

    def clear(self):
        self.flag = False

    def wait(self, timeout=None):
        while not self.flag:
            s, w = _me()
            if w is None:
                raise Deadlock("simulated Event waited on from outside the simulation")
            if timeout is not None:
                return self.flag  # a timed wait never blocks in simulation: it times out
            s.block_on(w, self)
        return True


class SimSemaphore:
    def __init__(self, value=1):
        self.value = value

    def acquire(self, blocking=True, timeout=None):
        while self.value <= 0:
            if not blocking or timeout is not None:
                return False
            s, w = _me()
            if w is None:
                raise Deadlock("simulated Semaphore acquired from outside the simulation")
            s.block_on(w, self)
        self.value -= 1
        return True

    def release(self, n=1):
        self.value += n
        s = CURRENT
        if s is not None:
            s.wake(self)

    __enter__ = acquire

    def __exit__(self, *a):
        self.release()


# ---------------------------------------------------------------- scheduler


def call_boundary():
    """Harness code running inside a simulated thread calls this between two library calls. Under the
    'entry_sync' schedule the thread waits here until every other live thread has reached a boundary too,
    then all of them enter their next call together under line-by-line interleaving: races between the
    first lines of two calls (cache look-ups, lazy initialisation, lock acquisition order) are explored for
    every pair of calls, not only for the first call of each thread."""
    s = CURRENT
    if s is None:
        return
    w = s.by_ident.get(_thread.get_ident())
    if w is not None:
        s.on_boundary(w)


def io_point(*_ev):
    """Called by the file-system seam right BEFORE an operation on the simulated tree takes effect. Under the
    'io_sync' schedule this is where (and the only place where) another thread may be chosen, so the order of
    opens / closes / renames of different threads is what the seeded search enumerates - the interleavings that
    matter for races through files (temporary names, check-then-act on existence, partial writes)."""
    s = CURRENT
    if s is None or s.kind != "io_sync" or s.aborted:
        return
    w = s.by_ident.get(_thread.get_ident())
    if w is not None and w is s.current:
        w.where = ("<file system>", 0)
        s._yield(w)


class Worker:
    __slots__ = ("idx", "fn", "sem", "thread", "done", "blocked_on", "result", "steps", "where", "at_boundary")

    def __init__(self, idx, fn):
        self.idx = idx
        self.fn = fn
        self.sem = _RealSemaphore(0)
        self.thread = None
        self.done = False
        self.blocked_on = None
        self.result = None
        self.steps = 0
        self.where = ("<start>", 0)
        self.at_boundary = False


class Scheduler:
    """spec: {"kind": "random"|"pct"|"starve"|"segments", ...}"""

    BUDGETS = [1, 1, 2, 3, 5, 8, 13, 50, 200, 1000]

    def __init__(self, spec, max_steps=20_000_000, wall_timeout=120.0, max_switches=40_000):
        self.spec = dict(spec)
        self.kind = self.spec.get("kind", "random")
        self.rng = random.Random(self.spec.get("seed", 0))
        self.max_steps = max_steps
        self.max_switches = max_switches  # beyond this, budgets are stretched (cost cap, deterministic)
        self.wall_timeout = wall_timeout
        self.workers = []
        self.by_ident = {}
        self.current = None
        self.budget = 0
        self.steps = 0
        self.switches = 0
        self.segments = []  # recorded: [thread, steps]
        self.seg_steps = 0
        self.log = hashlib.blake2b(digest_size=12)
        self.pairs = set()
        self.aborted = None
        self.deadlock = None
        self.main_sem = _RealSemaphore(0)
        self._replay = list(self.spec.get("segments", [])) if self.kind == "segments" else None
        self._replay_pos = 0
        # pct
        self._prio = None
        self._change_points = ()
        # entry_sync
        self._phase = "gather"
        self._fine_until = -1
        # starve
        self._victim = self.spec.get("victim", 0)
        self._stall = self.spec.get("stall", 0)

    # ----- choosing
    def runnable(self):
        return [w for w in self.workers if not w.done and w.blocked_on is None]

    def _choose(self, cur):
        """-> (worker, budget). cur may be None / done / blocked."""
        run = self.runnable()
        if not run:
            return None, 0
        k = self.kind
        if k == "segments":
            while self._replay_pos < len(self._replay):
                t, n = self._replay[self._replay_pos]
                self._replay_pos += 1
                w = self.workers[t % len(self.workers)]
                if w in run and n > 0:
                    return w, n
            # recorded schedule exhausted: run the rest to completion in index order
            return run[0], 1 << 60
        if k == "pct":
            w = max(run, key=lambda x: self._prio[x.idx])
            return w, 1 << 60
        if k == "starve":
            others = [w for w in run if w.idx != self._victim % len(self.workers)]
            if others and self.steps < self._stall:
                return self.rng.choice(others), self.rng.choice(self.BUDGETS)
            return self.rng.choice(run), self.rng.choice(self.BUDGETS)
        if k == "roundrobin":
            return run[0], 1 << 60
        if k == "io_sync":
            return self.rng.choice(run), 1 << 60  # runs until its next file-system operation (or the end)
        if k == "entry_sync":
            if self._phase == "fine":
                if self.steps < self._fine_until:
                    return self.rng.choice(run), self.rng.choice([1, 1, 2, 3])
                self._phase = "gather"
            moving = [w for w in run if not w.at_boundary]
            if moving:
                # bring every live thread to its next call boundary, one call at a time
                return (cur if (cur is not None and cur in moving) else moving[0]), 1 << 60
            # everyone is at a boundary: release them together, line by line
            for w in run:
                w.at_boundary = False
            self._phase = "fine"
            self._fine_until = self.steps + self.spec.get("fine_steps", 100)
            return self.rng.choice(run), self.rng.choice([1, 1, 2, 3])
        if k == "fine_start":
            # line-by-line interleaving while the calls are young (cache look-ups and initialisation
            # happen in the first lines of a call), coarse afterwards
            if self.steps < self.spec.get("fine_steps", 400):
                return self.rng.choice(run), self.rng.choice([1, 1, 2, 3])
            return self.rng.choice(run), self.rng.choice([50, 200, 1000, 5000])
        # random walk
        return self.rng.choice(run), self.rng.choice(self.spec.get("budgets", self.BUDGETS))

    # ----- events from threads
    def on_step(self, w, code, line):
        if self.aborted:
            raise SimAbort()
        if w is not self.current:
            # a worker running without the baton would break everything: abort loudly
            self.aborted = "thread ran without the baton"
            raise SimAbort()
        self.steps += 1
        self.seg_steps += 1
        w.steps += 1
        w.where = (code.co_name, line)
        if self.steps > self.max_steps:
            self.aborted = "step cap exceeded"
            raise SimAbort()
        if self.kind == "pct" and self.steps in self._change_points:
            self._prio[w.idx] = min(self._prio.values()) - 1
            self.budget = 0
        self.budget -= 1
        if self.budget <= 0:
            self._yield(w)

    def on_boundary(self, w):
        if self.kind != "entry_sync" or self.aborted or self._phase != "gather":
            return
        w.at_boundary = True
        w.where = ("<call boundary>", 0)
        self._yield(w)

    def _close_segment(self):
        if self.current is not None and self.seg_steps > 0:
            self.segments.append([self.current.idx, self.seg_steps])
        self.seg_steps = 0

    def _yield(self, w):
        nxt, b = self._choose(w)
        if nxt is None:
            # nobody else: only possible if w itself is blocked -> deadlock handled by caller
            return False
        if self.switches >= self.max_switches:
            b = max(b, 100_000)
        if nxt is w:
            self.budget = b
            return True
        self._switch(w, nxt, b)
        return True

    def _switch(self, w, nxt, b):
        self._close_segment()
        self.switches += 1
        self.log.update(f"{self.steps}:{w.idx}@{w.where[0]}:{w.where[1]}>{nxt.idx};".encode())
        self.pairs.add(f"{w.where[0]}|{nxt.where[0]}")
        self.current = nxt
        self.budget = b
        nxt.sem.release()
        w.sem.acquire()
        if self.aborted:
            raise SimAbort()

    def block_on(self, w, obj):
        """Called by a simulated primitive: w cannot proceed until obj is signalled."""
        if self.aborted:
            raise SimAbort()
        w.blocked_on = obj
        nxt, b = self._choose(w)
        if nxt is None:
            self.deadlock = {
                "blocked": [[x.idx, x.where[0], x.where[1], type(x.blocked_on).__name__] for x in self.workers if not x.done]
            }
            self.aborted = "deadlock"
            w.blocked_on = None
            raise SimAbort()
        self._switch(w, nxt, b)

    def wake(self, obj):
        for x in self.workers:
            if x.blocked_on is obj:
                x.blocked_on = None

    # ----- thread bodies
    def _body(self, w):
        self.by_ident[_thread.get_ident()] = w
        w.sem.acquire()
        try:
            if self.aborted:
                raise SimAbort()
            w.result = ("ok", w.fn())
        except SimAbort:
            w.result = ("aborted", None)
        except BaseException as e:  # noqa: BLE001
            w.result = ("exc", e)
        finally:
            w.done = True
            if self.current is w:
                self._close_segment()
            nxt, b = (None, 0)
            if not self.aborted:
                nxt, b = self._choose(None)
                if nxt is None and any(not x.done for x in self.workers):
                    self.deadlock = {
                        "blocked": [[x.idx, x.where[0], x.where[1], type(x.blocked_on).__name__] for x in self.workers if not x.done]
                    }
                    self.aborted = "deadlock"
            if self.aborted:
                # release everybody still parked so they unwind
                rest = [x for x in self.workers if not x.done]
                if rest:
                    self.current = rest[0]
                    rest[0].sem.release()
                else:
                    self.main_sem.release()
            elif nxt is not None:
                self.log.update(f"{self.steps}:{w.idx}#done>{nxt.idx};".encode())
                self.current = nxt
                self.budget = b
                nxt.sem.release()
            else:
                self.main_sem.release()

    def run(self, fns):
        """Run the callables as threads under this schedule. Returns the list of
        ('ok', value) | ('exc', exception) | ('aborted', None)."""
        global CURRENT
        if CURRENT is not None:
            raise RuntimeError("nested simulation")
        self.workers = [Worker(i, f) for i, f in enumerate(fns)]
        n = len(self.workers)
        if self.kind == "pct":
            order = list(range(n))
            self.rng.shuffle(order)
            self._prio = {t: n - i for i, t in enumerate(order)}
            est = max(2, int(self.spec.get("est_steps", 10000)))
            d = int(self.spec.get("d", 2))
            self._change_points = frozenset(self.rng.randrange(1, est) for _ in range(d))
        CURRENT = self
        try:
            for w in self.workers:
                w.thread = _RealThread(target=self._body, args=(w,), daemon=True, name=f"sim-{w.idx}")
                w.thread.start()
            first, b = self._choose(None)
            self.current = first
            self.budget = b
            first.sem.release()
            if not self.main_sem.acquire(timeout=self.wall_timeout):
                self.aborted = self.aborted or "wall timeout"
                raise TimeoutError("simsched: run did not finish within the wall cap (harness error)")
            for w in self.workers:
                w.thread.join(timeout=10)
        finally:
            CURRENT = None
        return [w.result for w in self.workers]

    def digest(self):
        """Identity of the interleaving: which thread ran for how many line steps, in order."""
        return hashlib.blake2b(repr(self.segments).encode(), digest_size=12).hexdigest()
