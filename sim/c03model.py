"""
C03 reference pieces, none of which uses repo code:

* Vocab:      keyword alternatives per object type, read from the raw schema files at run
              time; every generated value carries the lexical class MapServer requires
* Block:      the shadow model of a Mapfile dictionary (what it should contain), with
              expected_tokens()
* read():     an independent reader of pretty-printer output -> flat token list

Token classes: W bare word (keywords, END, enumerated values, TRUE/FALSE, AUTO),
Q quoted string, N number, B [binding], E (parenthesised expression), R /regex/[i],
L {list expression}.
"""

from __future__ import annotations

import json
import os
import re

OBJECT_LISTS = {"layers": "layer", "classes": "class", "styles": "style", "symbols": "symbol", "labels": "label",
                "outputformats": "outputformat", "features": "feature", "scaletokens": "scaletoken",
                "composites": "composite", "joins": "join"}
KV_BLOCKS = ("metadata", "validation", "values", "connectionoptions")
REPEATED = ("processing", "formatoption", "include", "compfilter")
WORDS = ["roads", "Layer 1", "a.b", "x_y", "café", "中文", "value-7", "semi;colon", "two  spaces", "it is", "100%", "tab\there",
         "", " padded ", "two\nlines", "7", "12.5", "1e3", "-3", "nan", "true", "off", "it's", "'primary' and 'secondary'", "'x'", '"a" or "b"', 'say "hi"', "(not an expression", "[half", "#hash", "/slash",
         "{name}", "{a,b}", "{ spaced }"]


# ------------------------------------------------------------------ the independent reader

_NUM = re.compile(r"[-+]?(?:\d+\.\d*|\.\d+|\d+)(?:[eE][-+]?\d+)?(?![A-Za-z0-9_.:-])")
_WORD = re.compile(r"[A-Za-z0-9_\-:.%&;!=<>*+~^|,]+")


class ReadError(Exception):
    pass


def read(text):
    """Tokenise printer output the way MapServer's lexer classes tokens."""
    toks = []
    i, n = 0, len(text)
    while i < n:
        c = text[i]
        if c in " \t\r\n\f":
            i += 1
        elif c == "#":
            j = text.find("\n", i)
            i = n if j < 0 else j
        elif c in "\"'":
            j = i + 1
            buf = []
            while True:
                if j >= n:
                    raise ReadError(f"unterminated string starting at {i}")
                if text[j] == "\\" and j + 1 < n and text[j + 1] == c:
                    buf.append(c)
                    j += 2
                elif text[j] == c:
                    break
                else:
                    buf.append(text[j])
                    j += 1
            toks.append(["Q", "".join(buf)])
            i = j + 1
        elif c == "[":
            j = text.find("]", i)
            if j < 0:
                raise ReadError("unterminated [binding]")
            toks.append(["B", text[i:j + 1]])
            i = j + 1
        elif c == "(":
            depth, j = 0, i
            while j < n:
                if text[j] == "(":
                    depth += 1
                elif text[j] == ")":
                    depth -= 1
                    if depth == 0:
                        break
                elif text[j] in "\"'":
                    q = text[j]
                    j += 1
                    while j < n and text[j] != q:
                        j += 1
                j += 1
            if j >= n:
                raise ReadError("unbalanced parenthesis")
            toks.append(["E", text[i:j + 1]])
            i = j + 1
        elif c == "{":
            j = text.find("}", i)
            if j < 0:
                raise ReadError("unterminated {list}")
            toks.append(["L", text[i:j + 1]])
            i = j + 1
        elif c == "/":
            j = text.find("/", i + 1)
            if j < 0:
                raise ReadError("unterminated /regex/")
            j += 1
            if j < n and text[j] == "i":
                j += 1
            toks.append(["R", text[i:j]])
            i = j
        else:
            m = _NUM.match(text, i)
            if m:
                toks.append(["N", m.group(0)])
                i = m.end()
                continue
            m = _WORD.match(text, i)
            if not m:
                raise ReadError(f"unreadable character {c!r} at {i}")
            toks.append(["W", m.group(0).upper()])
            i = m.end()
    return toks


def norm_expr(t):
    out, q = [], None
    for ch in t:
        if q:
            out.append(ch)
            if ch == q:
                q = None
        elif ch in "\"'`":
            q = ch
            out.append(ch)
        elif not ch.isspace():
            out.append(ch)
    return "".join(out)


def norm_tokens(toks):
    out = []
    for cls, t in toks:
        if cls == "N":
            try:
                t = repr(float(t))
            except ValueError:
                pass
        elif cls == "W":
            t = t.upper()
        elif cls == "E":
            t = norm_expr(t)  # spacing BETWEEN the tokens of an expression is normalised by the parser (not this property's subject); inside string literals it is data
        out.append([cls, t])
    return out


# ------------------------------------------------------------------ vocabulary


class Vocab:
    def __init__(self, schemas_dir):
        self.raw = {}
        for fn in sorted(os.listdir(schemas_dir)):
            if fn.endswith(".json"):
                with open(os.path.join(schemas_dir, fn), encoding="utf-8") as f:
                    self.raw[fn[:-5]] = json.load(f)
        self.types = sorted(t for t, j in self.raw.items() if isinstance(j, dict) and "properties" in j and t not in ("metadata", "validation", "values", "connectionoptions", "symbolset"))
        self.keywords = {}  # type -> {key: [alt kind, ...]}
        self.children = {}  # type -> [(key, child type, is_list)]
        for t in self.types:
            kws, ch = {}, []
            for k, node in self.raw[t]["properties"].items():
                if k.startswith("__") or k in REPEATED or k in KV_BLOCKS or k in ("config", "projection", "points", "pattern"):
                    continue
                if k in OBJECT_LISTS:
                    ch.append((k, OBJECT_LISTS[k], True))
                    continue
                tgt = self._object_ref(node)
                if tgt:
                    if tgt in self.types and k == tgt:
                        ch.append((k, tgt, False))
                    # e.g. STYLE SYMBOL: an inline SYMBOL block, or a symbol name (string), or an index (number)
                    kinds = sorted(set(self._kinds(node, k)))
                    if kinds:
                        kws[k] = kinds
                    continue
                kinds = sorted(set(self._kinds(node, k)))
                if kinds:
                    kws[k] = kinds
            self.keywords[t] = kws
            self.children[t] = ch

    def _object_ref(self, node):
        """name of the object type a property refers to (directly or through allOf/oneOf), else None"""
        if not isinstance(node, dict):
            return None
        r = node.get("$ref")
        if isinstance(r, str):
            t = r[:-5]
            if isinstance(self.raw.get(t), dict) and "properties" in self.raw[t]:
                return t
        for k in ("allOf", "oneOf", "anyOf"):
            for a in node.get(k, []) if isinstance(node.get(k), list) else []:
                t = self._object_ref(a)
                if t:
                    return t
        return None

    def _kinds(self, node, key, depth=0):
        """lexical alternatives a keyword admits; each is a kind name understood by gen()"""
        if not isinstance(node, dict) or depth > 6:
            return []
        if "$ref" in node:
            tgt = self.raw.get(node["$ref"][:-5], {})
            if isinstance(tgt, dict) and "properties" in tgt:
                return []  # an object type: not a scalar alternative
            return self._kinds(tgt, key, depth + 1)
        out = []
        for k in ("oneOf", "anyOf", "allOf"):
            if isinstance(node.get(k), list):
                for a in node[k]:
                    out += self._kinds(a, key, depth + 1)
                return out
        if "enum" in node:
            words = [e for e in node["enum"] if isinstance(e, str) and re.fullmatch(r"[a-z][a-z0-9_-]*", e) and e != "end"]
            nums = [e for e in node["enum"] if isinstance(e, (int, float)) and not isinstance(e, bool)]
            if words:
                out.append("enum:" + ",".join(words))
            if nums:
                out.append("enumnum:" + ",".join(str(x) for x in nums))
            return out
        t = node.get("type")
        pat = node.get("pattern", "")
        if t == "string" or (t is None and pat):
            if pat.startswith("^\\["):
                return ["binding"]
            if pat.startswith("^\\("):
                return ["expr"]
            if pat.startswith("^/"):
                return ["regex"]
            if "#" in pat:
                return ["hex"]
            if pat:
                return []
            return ["string"]
        if t == "integer":
            return [f"int:{node.get('minimum', 0)}:{node.get('maximum', '')}"]
        if t == "number":
            return [f"num:{node.get('minimum', 0)}:{node.get('maximum', '')}"]
        if t == "boolean":
            return ["bool"]
        if t == "array":
            items = node.get("items")
            n = node.get("minItems")
            if isinstance(items, dict) and n and n == node.get("maxItems"):
                sub = self._kinds(items, key, depth + 1)
                return [f"array:{n}:{s}" for s in sub if not s.startswith("array")]
            if isinstance(items, list) and all(isinstance(i, dict) for i in items):
                subs = [self._kinds(i, key, depth + 1) for i in items]
                if all(len(s) == 1 for s in subs):
                    return ["tuple:" + "|".join(s[0] for s in subs)]
        return []

    # ---- value generation: -> (python value, [[cls, text], ...])
    def gen(self, r, kind, key):
        if kind.startswith("enum:"):
            w = r.choice(kind[5:].split(","))
            v = w.upper() if r.random() < 0.6 else w
            if key == "compop":
                return v, [["Q", v]]  # COMPOP takes a quoted string
            return v, [["W", w.upper()]]
        if kind.startswith("enumnum:"):
            x = r.choice(kind[8:].split(","))
            v = float(x) if "." in x else int(x)
            return v, [["N", str(v)]]
        if kind == "string":
            w = r.choice(WORDS)
            if key == "expression" and w.strip().startswith("{") and w.strip().endswith("}"):
                # on EXPRESSION a brace-shaped string IS the list expression (the dictionary holds both as the same
                # string): outside the "free strings" clause - not generated
                w = "roads"
            return w, [["Q", w]]
        if kind == "binding":
            w = "[" + r.choice(["name", "ATTR_1", "size", "name-en", "gml:name", "pop-2020", "ÀÉ"]) + "]"
            return w, [["B", w]]
        if kind == "expr":
            w = r.choice(["([pop] > 100)", '("[name]" = "x")', "([a] + 2 * [b])", "([code] = '1)')", "([street] = 'Main St (north')",
                          "(([a] > 1) AND ([b] < 2))", "('(' + [name])", '("[name]" = "New  York")', "([a] = 'x\ty   z')"])
            return w, [["E", w]]
        if kind == "regex":
            w = r.choice(["/^road/", "/a|b/", "/^road/i"])
            return w, [["R", w]]
        if kind == "istring":
            # a case-insensitive string comparison literal: "text"i / 'text'i, in either quote character
            q = r.choice(["'", '"'])
            inner = r.choice(["aitkin", "Main St", "x"])
            return q + inner + q + "i", [["Q", inner], ["W", "I"]]
        if kind == "list":
            w = r.choice(["{a,b,c}", "{1,2}"])
            return w, [["L", w]]
        if kind == "hex":
            w = r.choice(["#ff00aa", "#abc", "#00ff00cc"])
            return w, [["Q", w]]
        if kind.startswith("int:") or kind.startswith("num:"):
            _, lo, hi = kind.split(":")
            lo = float(lo) if lo else 0.0
            hi = float(hi) if hi else lo + 100
            if kind.startswith("int:"):
                v = r.randint(int(lo), int(max(lo, min(hi, lo + 50))))
                if r.random() < 0.05 and hi >= 10 ** 6:
                    v = 10 ** 6
            elif hi == 255:
                v = r.choice([0, 1, 128, 255])  # colour components are written as integers
            else:
                v = r.choice([lo, min(hi, lo + 1), min(hi, lo + 2.5), min(hi, lo + 0.000001), min(hi, lo + 123456.789),
                              min(hi, lo + 1.23456789e-05), min(hi, lo + 2.5e-11), min(hi, lo + 0.000123456789012)])
                if float(v).is_integer() and r.random() < 0.5:
                    v = int(v)
            return v, [["N", str(v)]]
        if kind == "bool":
            v = r.random() < 0.5
            return v, [["W", "TRUE" if v else "FALSE"]]
        if kind.startswith("array:"):
            _, n, sub = kind.split(":", 2)
            vals, toks = [], []
            for _ in range(int(n)):
                v, t = self.gen(r, sub, key)
                vals.append(v)
                toks += t
            return vals, toks
        if kind.startswith("tuple:"):
            vals, toks = [], []
            for sub in kind[6:].split("|"):
                v, t = self.gen(r, sub, key)
                vals.append(v)
                toks += t
            return vals, toks
        raise ValueError("unknown kind " + kind)

    def kinds_for(self, typ, key):
        ks = list(self.keywords.get(typ, {}).get(key, []))
        if key in ("expression", "filter") and typ in ("class", "layer"):
            ks += ["regex", "istring"] + (["list"] if key == "expression" else [])
        return ks


# ------------------------------------------------------------------ shadow model


def block_tokens(b, out):
    """expected token sequence of one shadow block (a dict: {"type":, "items": [[key, item], ...]})"""
    t = b["type"]
    if t is None:
        raise Unprintable("<empty object in a list of objects>")
    if t in KV_BLOCKS:
        out.append(["W", t.upper()])
        for k, v in b["items"]:
            if k.startswith("__") and k.endswith("__"):
                continue
            out.append(["Q", k])
            out.append(["Q", v[2]])
        out.append(["W", "END"])
        return
    out.append(["W", t.upper()])
    for k, item in b["items"]:
        if k.startswith("__") and k.endswith("__"):
            continue
        kind = item[0]
        if kind == "attr":
            out.append(["W", k.upper()])
            out.extend(item[1])
        elif kind == "block":
            block_tokens(item[1], out)
        elif kind == "blocks":
            for c in item[1]:
                block_tokens(c, out)
        elif kind == "kv":
            block_tokens(item[1], out)
        elif kind == "repeated":
            for s in item[1]:
                out.append(["W", k.upper()])
                out.append(["Q", s])
        elif kind == "config":
            for ck, cv in item[1]:
                out.append(["W", "CONFIG"])
                out.append(["Q", ck.upper()])
                out.append(["Q", cv])
        elif kind == "projection":
            out.append(["W", "PROJECTION"])
            if item[1] == "AUTO":
                out.append(["W", "AUTO"])
            else:
                for s in item[1]:
                    out.append(["Q", s])
            out.append(["W", "END"])
        elif kind in ("points", "pattern"):
            out.append(["W", k.upper()])
            for x, y in item[1]:
                out.append(["N", str(x)])
                out.append(["N", str(y)])
            out.append(["W", "END"])
        elif kind == "multipoints":
            for part in item[1]:  # a multi-part FEATURE: one POINTS block per part
                out.append(["W", "POINTS"])
                for x, y in part:
                    out.append(["N", str(x)])
                    out.append(["N", str(y)])
                out.append(["W", "END"])
        elif kind == "unprintable":
            raise Unprintable(k)
        else:
            raise ValueError("unknown item kind " + kind)
    out.append(["W", "END"])


class Unprintable(Exception):
    pass


def expected(b):
    """-> ('tokens', [...]) or ('refuse', key)"""
    out = []
    try:
        block_tokens(b, out)
    except Unprintable as e:
        return "refuse", str(e)
    return "tokens", out
