"""Semantic mutants used by `selftest.py sensitivity`: (name, [(file, old, new)]).
Each still lets the repo's own test suite pass (checked when it was added)."""

OD = "mappyfile/ordereddict.py"

MUTANTS = {
    "C17": [
        ("pop_without_key_folding", [(OD, "return super().pop(self.__class__._k(key), *args, **kwargs)", "return super().pop(key, *args, **kwargs)")]),
        # (setdefault without folding is an equivalent mutant: C OrderedDict.setdefault goes through the overridden __contains__/__getitem__/__setitem__)
        ("get_without_key_folding", [(OD, "return super().get(self.__class__._k(key), *args, **kwargs)", "return super().get(key, *args, **kwargs)")]),
        ("contains_without_key_folding", [(OD, "return super().__contains__(self.__class__._k(key))", "return super().__contains__(key)")]),
        ("copy_drops_factory", [(OD, "return type(self)(self.default_factory, self)", "return type(self)(None, self)")]),
        ("deepcopy_is_shallow", [(OD, "copy.deepcopy(list(self.items()))", "list(self.items())")]),
        ("missing_returns_without_storing", [(OD, "self[key] = value = self.default_factory()", "value = self.default_factory()")]),
        ("update_kwargs_bypass_folding", [(OD, "super().update(self.__class__(CaseInsensitiveOrderedDict, **f))", "OrderedDict.update(self, **f) if False else [OrderedDict.__setitem__(self, k, v) for k, v in f.items()]")]),
        ("objlist_key_shared_list", [(OD, "self[key] = value = []", "self[key] = value = _EMPTY"), (OD, "class DefaultOrderedDict(OrderedDict):", "_EMPTY = []\n\n\nclass DefaultOrderedDict(OrderedDict):")]),
        ("reduce_drops_factory", [(OD, "args = (self.default_factory,)", "args = tuple()")]),
    ],
}
