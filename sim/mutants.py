"""Semantic mutants used by `selftest.py sensitivity`: (name, [(file, old, new)]).
Each still lets the repo's own test suite pass (checked when it was added)."""

OD = "mappyfile/ordereddict.py"

UT = "mappyfile/utils.py"
PA = "mappyfile/parser.py"
VA = "mappyfile/validator.py"
PP = "mappyfile/pprint.py"
DU = "mappyfile/dictutils.py"
CL = "mappyfile/cli.py"

_PARSER_CACHE = (
    "def loads(\n    s: str,",
    "_PARSERS: dict = {}\n\n\ndef _parser(expand_includes, include_comments):\n    key = (expand_includes, include_comments)\n"
    "    if key not in _PARSERS:\n        _PARSERS[key] = Parser(expand_includes=expand_includes, include_comments=include_comments)\n"
    "    return _PARSERS[key]\n\n\ndef loads(\n    s: str,",
)

MUTANTS = {
    "C12": [
        ("module_level_parser_cache_in_loads", [
            (UT, _PARSER_CACHE[0], _PARSER_CACHE[1]),
            (UT, "    p = Parser(\n        expand_includes=expand_includes, include_comments=include_comments, **kwargs\n    )\n    ast = p.parse(s)",
                 "    p = _parser(expand_includes, include_comments)\n    ast = p.parse(s)"),
        ]),
        ("comment_buffer_not_cleared", [(PA, "            self._comments[:] = []  # clear any comments from a previous parse\n", "")]),
        ("shared_module_level_validator", [
            (UT, "    v = Validator()\n    return v.validate(d, version=version)", "    return _VALIDATOR.validate(d, version=version)"),
            (UT, "def deprecated(func):", "_VALIDATOR = Validator()\n\n\ndef deprecated(func):"),
        ]),
        ("schema_cache_key_without_version", [(VA, "cache_schema_name = schema_name + str(version)", "cache_schema_name = schema_name")]),
        ("convert_lowercase_in_place", [(VA, "        if isinstance(x, dict):\n            return OrderedDict(\n                (k.lower(), self.convert_lowercase(v)) for k, v in x.items()\n            )",
                                         "        if isinstance(x, dict):\n            for k in list(x.keys()):\n                x[k] = self.convert_lowercase(x[k])\n            return x")]),
        ("separate_complex_always", [(PP, "        if not self.separate_complex_types:\n            return\n", "")]),
        ("transformer_keeps_previous_position_flag", [("mappyfile/transformer.py", "        self.mapfile_transformer = self.transformer_class(\n            include_position=self.include_position,",
                                                       "        self.mapfile_transformer = self.transformer_class(\n            include_position=self.include_position or getattr(MapfileToDict, '_seen_pos', False),"),
                                                      ("mappyfile/transformer.py", "    def transform(self, tree):\n        tree = Canonize().transform(tree)\n", "    def transform(self, tree):\n        tree = Canonize().transform(tree)\n        MapfileToDict._seen_pos = getattr(MapfileToDict, '_seen_pos', False) or self.include_position\n")]),
    ],
    "C03": [
        ("hidden_keys_printed_in_key_value_blocks", [(PP, "        for k, v in d.items():\n            if not self.__is_metadata(k):\n                qk = self.quoter.add_quotes(k)", "        for k, v in d.items():\n            if k != \"__type__\":\n                qk = self.quoter.add_quotes(k)")]),
        ("empty_dict_guard_only_for_enums_again", [(PP, "        if isinstance(value, dict):\n            # composites", "        if isinstance(value, dict) and \"enum\" in attr_props:\n            # composites")]),
        ("enum_values_quoted", [(PP, "                return str(value).upper()  # value is from a set list, no need for quote", "                return self.quoter.add_quotes(str(value).upper())")]),
        ("allof_not_unwrapped_again", [(PP, "        if \"allOf\" in attr_props and len(attr_props[\"allOf\"]) == 1:", "        if False:")]),
        ("bindings_in_lists_quoted_again", [(PP, "                    and not (self.quoter.is_string(v) and self.quoter.in_brackets(v))\n", "")]),
        ("regex_i_quoted_again", [("mappyfile/quoter.py", "        if len(val) > 2 and val.endswith(\"/i\"):", "        if False:")]),
        ("repeated_keys_last_value_only", [(PP, "        for v in lst:\n            k = key.upper()", "        for v in lst[-1:]:\n            k = key.upper()")]),
        ("print_cache_by_identity", [(PP, "    def _format(self, composite: dict, level: int = 0) -> list[str]:\n        lines: list[str] = []", "    def _format(self, composite: dict, level: int = 0) -> list[str]:\n        if not hasattr(self, \"_seen\"):\n            self._seen = set()\n        if id(composite) in self._seen:\n            return []\n        self._seen.add(id(composite))\n        lines: list[str] = []")]),
        ("dump_writes_before_formatting_finishes", [(UT, "    map_string = _pprint(\n        d,\n        indent,\n        spacer,\n        quote,\n        newlinechar,\n        end_comment,\n        align_values,\n        separate_complex_types,\n    )\n    fp.write(map_string)", "    fp.write(\"\")\n    fp.write(_pprint(d, indent, spacer, quote, newlinechar, end_comment, align_values, separate_complex_types))")]),
        ("save_opens_file_before_formatting", [(UT, "    map_string = _pprint(\n        d,\n        indent,\n        spacer,\n        quote,\n        newlinechar,\n        end_comment,\n        align_values,\n        separate_complex_types,\n    )\n    _save(output_file, map_string)", "    with codecs.open(output_file, \"w\", encoding=\"utf-8\") as f:\n        f.write(_pprint(d, indent, spacer, quote, newlinechar, end_comment, align_values, separate_complex_types))")]),
        ("projection_single_string_unquoted", [(PP, "            for v in lst:\n                v = self.quoter.add_quotes(v)\n                lines.append(f\"{whitespace}{v}\")", "            for v in lst:\n                lines.append(f\"{whitespace}{v}\")")]),
    ],
    "C09": [
        ("range_test_exclusive", [(VA, "if version < min_version or version > max_version:", "if version <= min_version or version > max_version:")]),
        ("range_test_max_exclusive", [(VA, "if version < min_version or version > max_version:", "if version < min_version or version >= max_version:")]),
        ("cache_key_without_version", [(VA, "cache_schema_name = schema_name + str(version)", "cache_schema_name = schema_name")]),
        ("no_recursion_into_nested_objects", [(VA, "                    del properties[key]\n                self.get_versioned_properties(v, version)", "                    del properties[key]")]),
        ("version_zero_point_check_widened", [(VA, "        if version:\n            # remove any properties", "        if version and version >= 5.0:\n            # remove any properties")]),
        ("list_members_not_descended", [(VA, "                            # also filter the keywords and alternatives nested in this member\n                            self.get_versioned_properties(props, version)\n", "")]),
        ("alternatives_not_filtered", [(VA, "                        if self.is_valid_for_version(props, version) is True:\n", "                        if True:\n")]),
        ("versionless_validation_uses_last_versioned_schema", [(VA, "        else:\n            validator = self.get_schema_validator(schema_name)", "        elif getattr(self, '_last', None) is not None and schema_name in self._last:\n            validator = self._last[schema_name]\n        else:\n            validator = self.get_schema_validator(schema_name)"),
                                                               (VA, "            validator = jsonschema.Draft4Validator(schema=jsn_schema)\n", "            validator = jsonschema.Draft4Validator(schema=jsn_schema)\n            self._last = getattr(self, '_last', None) or {}\n            self._last[schema_name] = validator\n")]),
    ],
    "C20": [
        ("format_ignores_quote", [(CL, "        quote=quote,\n        newlinechar=newlinechar,\n    )\n    sys.exit(0)", "        newlinechar=newlinechar,\n    )\n    sys.exit(0)")]),
        ("validate_counts_files_not_messages", [(CL, "                click.echo(msg)\n                errors += 1", "                click.echo(msg)\n            errors += 1")]),
        ("dump_appends_newline", [(UT, "    fp.write(map_string)", "    fp.write(map_string + newlinechar)")]),
        ("format_drops_comments_flag", [(CL, "        include_comments=comments,\n        include_position=True,", "        include_position=True,")]),
        ("open_translates_newlines_again", [(PA, 'with open(fn, "r", encoding="utf-8", newline="") as f:', 'with open(fn, "r", encoding="utf-8") as f:')]),
        ("parse_failure_not_counted_again", [(CL, "            click.echo(f\"{fn} failed to parse successfully\")\n            errors += 1\n", "            click.echo(f\"{fn} failed to parse successfully\")\n")]),
        ("exit_status_unclamped_again", [(CL, "sys.exit(min(errors, 255))", "sys.exit(errors)")]),
        ("save_replaces_unencodable", [(UT, 'with codecs.open(output_file, "w", encoding="utf-8") as f:', 'with codecs.open(output_file, "w", encoding="utf-16") as f:')]),
        ("validate_ignores_version_option", [(CL, "        validation_messages = mappyfile.validate(d, version)", "        validation_messages = mappyfile.validate(d)")]),
        ("load_strips_text", [(PA, "        text = fp.read()\n", "        text = fp.read().strip()\n")]),
    ],
    "C15": [
        ("resolve_relative_to_including_file", [(PA, "include_text, fn=fn, _nested_includes=_nested_includes + 1", "include_text, fn=inc_file_path, _nested_includes=_nested_includes + 1")]),
        ("max_depth_6", [(PA, "if _nested_includes == 5:", "if _nested_includes == 6:")]),
        ("max_depth_4", [(PA, "if _nested_includes == 5:", "if _nested_includes == 4:")]),
        ("missing_include_swallowed", [(PA, "                    raise ex\n", "                    continue\n")]),
        ("cwd_used_although_file_name_known", [(PA, "                        os.path.join(os.path.dirname(fn), inc_file_path)", "                        os.path.join(os.getcwd(), inc_file_path)")]),
        ("splice_lines_shifts_later_includes", [(PA, "            lines.pop(idx)  # remove the original include\n            lines.insert(idx, txt)", "            lines[idx:idx + 1] = txt.split(\"\\n\")")]),
        ("load_ignores_stream_name", [(PA, "        if hasattr(fp, \"name\"):", "        if False and hasattr(fp, \"name\"):")]),
        ("open_file_without_explicit_encoding", [(PA, 'with open(fn, "r", encoding="utf-8", newline="") as f:', 'with open(fn, "r", newline="") as f:')]),
        ("include_keyword_case_sensitive", [(PA, "if l.strip().lower().startswith(\"include\"):", "if l.strip().upper().startswith(\"INCLUDE\") and l.strip()[:7] in (\"INCLUDE\", \"include\"):")]),
    ],
    "C17": [
        ("pop_without_key_folding", [(OD, "return super().pop(self.__class__._k(key), *args, **kwargs)", "return super().pop(key, *args, **kwargs)")]),
        # (setdefault without folding is an equivalent mutant: C OrderedDict.setdefault goes through the overridden __contains__/__getitem__/__setitem__)
        ("get_without_key_folding", [(OD, "return super().get(self.__class__._k(key), *args, **kwargs)", "return super().get(key, *args, **kwargs)")]),
        ("contains_without_key_folding", [(OD, "return super().__contains__(self.__class__._k(key))", "return super().__contains__(key)")]),
        ("copy_drops_factory", [(OD, "return type(self)(self.default_factory, self)", "return type(self)(None, self)")]),
        ("deepcopy_is_shallow", [(OD, "copy.deepcopy(list(self.items()))", "list(self.items())")]),
        ("missing_returns_without_storing", [(OD, "self[key] = value = self.default_factory()", "value = self.default_factory()")]),
        ("update_kwargs_bypass_folding", [(OD, "super().update(self.__class__(CaseInsensitiveOrderedDict, **f))", "OrderedDict.update(self, **f) if False else [OrderedDict.__setitem__(self, k, v) for k, v in f.items()]")]),
        ("objlist_key_shared_list", [(OD, "self[key] = value = []", "self[key] = value = _EMPTY"), (OD, "class DefaultOrderedDict(OrderedDict):", "_EMPTY = []\n\n\nclass DefaultOrderedDict(OrderedDict):")]),
        ("reduce_drops_factory", [(OD, "args = (self.default_factory,)", "args = tuple()")]),
    ],
}


# Changes that KEEP the property: the checks must stay quiet on them (no VIOLATION, no harness error).
# `selftest.py benign` runs them; they exercise parts of the simulator that the unchanged tree never does
# (simulator-aware locks created by repo code, per-call memoisation of include files).
BENIGN = {
    "C03": [
        ("enum_values_printed_in_lower_case_and_two_spaces_after_keywords", [
            (PP, "                return str(value).upper()  # value is from a set list, no need for quote", "                return str(value).lower()"),
            (PP, "            aligned_max_indent = len(key) + 1", "            aligned_max_indent = len(key) + 2"),
        ]),
    ],
    "C09": [
        ("raw_schema_files_cached_at_class_level_read_only", [
            (VA, "    def __init__(self):\n        self.schemas = {}", "    _RAW: dict = {}\n\n    def __init__(self):\n        self.schemas = Validator._RAW"),
        ]),
    ],
    "C17": [
        ("getitem_checks_membership_before_lookup", [
            (OD, "        try:\n            return OrderedDict.__getitem__(self, key)\n        except KeyError:\n            return self.__missing__(key)",
                 "        if OrderedDict.__contains__(self, key):\n            return OrderedDict.__getitem__(self, key)\n        return self.__missing__(key)"),
        ]),
    ],
    "C18": [
        ("find_written_as_a_loop", [
            (DU, "    return next((item for item in lst if key in item and item[key] == value), None)",
                 "    for item in lst:\n        if key in item and item[key] == value:\n            return item\n    return None"),
        ]),
    ],
    "C20": [
        ("validate_prints_an_extra_progress_line_per_file", [
            (CL, "        fn = click.format_filename(fn)\n", "        fn = click.format_filename(fn)\n        click.echo(f\"checking {fn} ...\")\n"),
        ]),
    ],
    "C12": [
        ("lock_protected_parser_cache", [
            (UT, "def loads(\n    s: str,",
                 "import threading\n_PARSERS: dict = {}\n_PLOCK = threading.Lock()\n\n\ndef loads(\n    s: str,"),
            (UT, "    p = Parser(\n        expand_includes=expand_includes, include_comments=include_comments, **kwargs\n    )\n    ast = p.parse(s)\n    m = MapfileToDict(\n        include_position=include_position, include_comments=include_comments, **kwargs\n    )\n    d = m.transform(ast)\n    return d",
                 "    key = (expand_includes, include_comments)\n    with _PLOCK:\n        if key not in _PARSERS:\n            _PARSERS[key] = Parser(expand_includes=expand_includes, include_comments=include_comments)\n        p = _PARSERS[key]\n        ast = p.parse(s)\n        m = MapfileToDict(\n            include_position=include_position, include_comments=include_comments, **kwargs\n        )\n        d = m.transform(ast)\n    return d"),
        ]),
    ],
    "C15": [
        # a CORRECT memo: raw text per resolved path, dropped at every top-level include, depth checks still run
        ("per_call_memo_of_raw_include_text_keyed_by_resolved_path", [
            (PA, "                    include_text = self.open_file(inc_file_path)\n", "                    include_text = self._memo_open(inc_file_path, _nested_includes)\n"),
            (PA, "    def _assign_comments(self, _tree: Any) -> None:",
                 "    def _memo_open(self, path, level):\n        if level == 0 or not hasattr(self, \"_inc_memo\"):\n            self._inc_memo = {}\n"
                 "        if path not in self._inc_memo:\n            self._inc_memo[path] = self.open_file(path)\n        return self._inc_memo[path]\n\n"
                 "    def _assign_comments(self, _tree: Any) -> None:"),
        ]),
    ],
}

# needs one pre-emption on exactly one line while two particular calls enter together: ~1 run in 130,
# so the quick batch (~250 runs) is too short; a 7-minute budget finds it 9 times
MUTANTS["C12"].append(
    ("two_locks_taken_in_opposite_order", [
        (UT, "def loads(\n    s: str,", "import threading\n_LA = threading.Lock()\n_LB = threading.Lock()\n\n\ndef loads(\n    s: str,"),
        (UT, "    p = Parser(\n        expand_includes=expand_includes, include_comments=include_comments, **kwargs\n    )\n    ast = p.parse(s)",
             "    with _LA:\n        with _LB:\n            p = Parser(\n                expand_includes=expand_includes, include_comments=include_comments, **kwargs\n            )\n    ast = p.parse(s)"),
        (UT, "    return _pprint(\n        d,\n        indent,\n        spacer,\n        quote,\n        newlinechar,\n        end_comment,\n        align_values,\n        separate_complex_types,\n        **kwargs,\n    )",
             "    with _LB:\n        with _LA:\n            pass\n    return _pprint(\n        d,\n        indent,\n        spacer,\n        quote,\n        newlinechar,\n        end_comment,\n        align_values,\n        separate_complex_types,\n        **kwargs,\n    )"),
    ], {"VERIF_RUNS": "4000", "VERIF_BUDGET_S": "420"})
)
