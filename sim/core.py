"""
Shared core of the deterministic-simulation checks for mappyfile.

* bootstrap():   re-exec the interpreter with a pinned environment
* import_repo(): import mappyfile from $VERIF_REPO (default /repo) and prove it
* Streams:       labelled PRNG streams split from one integer
* freeze():      canonical, comparable, JSON-able form of any result
* run_batch():   the seeded search: fork pool, budget, minimise, replay, report
* evidence / known findings / VIOLATION protocol

Nothing here draws random numbers or reads a clock on behalf of a *run*; wall
time is read by the batch runner only (budget, runs/hour).
"""

from __future__ import annotations

import faulthandler
import hashlib
import json
import os
import random
import re
import subprocess
import sys
import time
import traceback

VERIF = os.path.dirname(os.path.dirname(os.path.abspath(__file__)))
REPO = os.path.abspath(os.environ.get("VERIF_REPO", "/repo"))
OUT = os.path.join(VERIF, "out")
# evidence under /verif/evidence is only ever written by runs against /repo itself; runs against a
# scratch copy (sensitivity self-test, seeded patches) write theirs under out/
EVIDENCE = os.path.join(VERIF, "evidence") if REPO == "/repo" else os.path.join(OUT, "evidence-scratch-repo")
REPLAYS = os.path.join(OUT, "replays")
KNOWN_FILE = os.path.join(VERIF, "known_findings.json")
TMPBASE = os.environ.get("VERIF_TMP", "/dev/shm")

EXIT_OK, EXIT_VIOLATION, EXIT_HARNESS = 0, 1, 2


class HarnessError(Exception):
    """The simulator itself is wrong or stuck: never a pass, never a VIOLATION."""


# ---------------------------------------------------------------- bootstrap


def bootstrap():
    """Pin every environment knob a run could depend on, then re-exec once."""
    want = {
        "PYTHONHASHSEED": os.environ.get("VERIF_HASHSEED", "0"),
        "MAPPYFILE_USE_CYTHON": "0",
        "PYTHONDONTWRITEBYTECODE": "1",
        "PYTHONWARNINGS": "ignore",
        "VERIF_BOOTSTRAPPED": "1",
    }
    if any(os.environ.get(k) != v for k, v in want.items()):
        env = dict(os.environ)
        env.update(want)
        os.execve(sys.executable, [sys.executable] + sys.argv, env)
    for d in (OUT, EVIDENCE, REPLAYS):
        os.makedirs(d, exist_ok=True)
    faulthandler.enable()


_repo_modules = None


def import_repo():
    """Import mappyfile from $VERIF_REPO and prove that is where it came from."""
    global _repo_modules
    if REPO not in sys.path[:1]:
        sys.path.insert(0, REPO)
    import logging

    logging.disable(logging.CRITICAL)  # the repo logs parse failures; keep runs quiet
    import mappyfile
    import mappyfile.cli  # noqa: F401  (not imported by the package itself)

    here = os.path.realpath(os.path.dirname(mappyfile.__file__))
    if here != os.path.realpath(os.path.join(REPO, "mappyfile")):
        raise HarnessError(
            f"mappyfile imported from {here}, expected {REPO}/mappyfile"
        )
    _repo_modules = repo_modules()
    return mappyfile


def repo_modules():
    root = os.path.realpath(os.path.join(REPO, "mappyfile")) + os.sep
    mods = []
    for name, m in sorted(sys.modules.items()):
        f = getattr(m, "__file__", None)
        if f and os.path.realpath(f).startswith(root):
            mods.append(m)
    return mods


# ---------------------------------------------------------------- seeds


def _h64(*parts) -> int:
    h = hashlib.sha256("\x1f".join(str(p) for p in parts).encode()).digest()
    return int.from_bytes(h[:8], "big")


def run_seed(base_seed: int, prop: str, idx: int) -> int:
    return _h64("run", base_seed, prop, idx)


class Streams:
    """Labelled PRNG streams: a new draw in one cannot shift another."""

    def __init__(self, seed: int):
        self.seed = seed
        self._s = {}

    def __call__(self, label: str) -> random.Random:
        r = self._s.get(label)
        if r is None:
            r = self._s[label] = random.Random(_h64("stream", self.seed, label))
        return r


def env_seed() -> int:
    try:
        return int(os.environ.get("VERIF_SEED", "0"))
    except ValueError:
        return _h64("seedstr", os.environ["VERIF_SEED"]) % (2**31)


def env_tier(default="quick") -> str:
    t = os.environ.get("VERIF_TIER", default)
    return t if t in ("quick", "thorough") else default


# ---------------------------------------------------------------- freeze

_ADDR = re.compile(r"0x[0-9a-fA-F]{6,}")


def mask(s: str) -> str:
    return _ADDR.sub("0xADDR", s)


def exc_repr(e: BaseException):
    t = type(e)
    name = f"{t.__module__}.{t.__qualname__}"
    if hasattr(e, "line") and hasattr(e, "column") and t.__module__.startswith("lark"):
        # lark prints its 'expected' *set* in iteration order, which differs between two
        # equivalent parser objects: keep position, token and the sorted set instead
        tok = getattr(e, "token", None)
        exp = getattr(e, "expected", None) or getattr(e, "allowed", None) or ()
        try:
            exp = sorted(str(x) for x in exp)
        except TypeError:
            exp = []
        msg = f"line {e.line} col {e.column} token {getattr(tok, 'type', None)}:{str(tok)[:40] if tok is not None else None} expected {','.join(exp)[:600]}"
        return ["exc", name, msg]
    return ["exc", name, mask(str(e))[:400]]


FREEZE_FACTORIES = False  # C12 turns it on: what a missing key does is part of a dictionary's state too


def freeze(x, _depth=0):
    """Canonical form: class names, key order, list/tuple, bool/int/float apart."""
    if _depth > 200:
        return ["deep"]
    if x is None:
        return None
    if isinstance(x, bool):
        return ["b", x]
    if isinstance(x, int):
        return ["i", x]
    if isinstance(x, float):
        return ["f", repr(x)]
    if isinstance(x, BaseException):
        return exc_repr(x)
    tn = type(x).__name__
    if isinstance(x, str):
        if tn == "Token":  # lark.Token is a str subclass
            return ["tok", getattr(x, "type", None), freeze(x.value, _depth + 1)]
        return x if tn == "str" else ["s:" + tn, str(x)]
    if isinstance(x, bytes):
        return ["y", x.hex()]
    if isinstance(x, dict):
        if FREEZE_FACTORIES and hasattr(x, "default_factory"):
            f_ = x.default_factory
            tn += "/factory=" + (getattr(f_, "__name__", None) or type(f_).__name__ if f_ is not None else "None")
        return [
            "D:" + tn,
            [[freeze(k, _depth + 1), freeze(v, _depth + 1)] for k, v in x.items()],
        ]
    if isinstance(x, list):
        return ["L" if tn == "list" else "L:" + tn, [freeze(v, _depth + 1) for v in x]]
    if isinstance(x, tuple):
        return ["T", [freeze(v, _depth + 1) for v in x]]
    if isinstance(x, (set, frozenset)):
        return ["S", sorted((freeze(v, _depth + 1) for v in x), key=repr)]
    if tn == "Tree" and hasattr(x, "children"):
        return ["tree", str(x.data), [freeze(c, _depth + 1) for c in x.children]]
    return ["obj", tn, mask(repr(x))[:200]]


def digest(x) -> str:
    return hashlib.sha256(
        json.dumps(x, sort_keys=False, ensure_ascii=True, default=str).encode()
    ).hexdigest()[:24]


def call(f, *a, **k):
    """Run f; return ('ok', frozen result, raw) or ('exc', frozen exception, exc)."""
    try:
        r = f(*a, **k)
    except RecursionError as e:  # keep apart: never a legitimate answer
        return "exc", exc_repr(e), e
    except Exception as e:  # noqa: BLE001
        return "exc", exc_repr(e), e
    return "ok", freeze(r), r


# ---------------------------------------------------------------- pristine forks


def in_fork(fn, timeout=120.0):
    """Run fn() in a forked child of the *current* state and return its JSON-able
    result. The child never returns into the caller's code. Used to obtain results
    that cannot have been influenced by anything the current process does later,
    and to keep the current process uninfluenced by the computation."""
    import select
    import signal

    sys.stdout.flush()
    sys.stderr.flush()
    r, w = os.pipe()
    pid = os.fork()
    if pid == 0:
        code = 0
        try:
            os.close(r)
            # (no faulthandler here: its watchdog thread does not survive fork and
            # re-arming it in the child blocks forever on the dead thread's lock)
            signal.signal(signal.SIGALRM, signal.SIG_DFL)
            signal.alarm(int(timeout) + 5)
            try:
                out = json.dumps({"ok": fn()}, default=str)
            except BaseException as e:  # noqa: BLE001
                out = json.dumps({"fork_error": "".join(traceback.format_exception(type(e), e, e.__traceback__))[-3000:]})
            data = out.encode()
            view = memoryview(data)
            while view:
                n = os.write(w, view[: 1 << 16])
                view = view[n:]
        except BaseException:  # noqa: BLE001
            code = 3
        finally:
            os._exit(code)
    os.close(w)
    chunks = []
    deadline = time.time() + timeout
    try:
        while True:
            left = deadline - time.time()
            if left <= 0:
                os.kill(pid, signal.SIGKILL)
                raise HarnessError("forked computation timed out")
            rd, _, _ = select.select([r], [], [], min(left, 5.0))
            if rd:
                b = os.read(r, 1 << 20)
                if not b:
                    break
                chunks.append(b)
    finally:
        os.close(r)
        try:
            os.waitpid(pid, 0)
        except ChildProcessError:
            pass
    raw = b"".join(chunks)
    if not raw:
        raise HarnessError("forked computation died without a result")
    res = json.loads(raw)
    if "fork_error" in res:
        raise HarnessError("forked computation failed: " + res["fork_error"])
    return res["ok"]


# ---------------------------------------------------------------- known findings


def load_known(prop: str):
    if not os.path.exists(KNOWN_FILE):
        return []
    with open(KNOWN_FILE, encoding="utf-8") as f:
        data = json.load(f)
    return [
        e
        for e in data.get("findings", [])
        if e.get("property") == prop and e.get("status") == "known"
    ]


def match_known(known, violation: dict):
    """An entry matches when every (key, value) of its matcher is found in the
    violation's signature (values are compared as strings; a matcher value
    starting with 're:' is a regular expression searched in the signature value)."""
    sig = dict(violation.get("sig", {}))
    sig["invariant"] = violation.get("invariant")
    for e in known:
        ok = True
        for k, v in e.get("match", {}).items():
            have = sig.get(k)
            if have is None:
                ok = False
            elif isinstance(v, str) and v.startswith("re:"):
                ok = re.search(v[3:], str(have)) is not None
            else:
                ok = str(have) == str(v)
            if not ok:
                break
        if ok:
            return e
    return None


def vclass(v: dict) -> str:
    """Violation class used by the minimiser and by replay verification."""
    return f"{v.get('invariant')}|{v.get('kind', '')}"


# ---------------------------------------------------------------- minimiser


def ddmin_list(items: list, test, max_tests=400):
    """Classic ddmin: smallest sub-list (order kept) for which test(sub) is true."""
    n = 2
    tests = 0
    items = list(items)
    while len(items) >= 2 and tests < max_tests:
        chunk = max(1, len(items) // n)
        subsets = [items[i : i + chunk] for i in range(0, len(items), chunk)]
        reduced = False
        for i in range(len(subsets)):
            comp = [x for j, s in enumerate(subsets) if j != i for x in s]
            tests += 1
            if comp != items and test(comp):
                items = comp
                n = max(n - 1, 2)
                reduced = True
                break
        if not reduced:
            if n >= len(items):
                break
            n = min(len(items), n * 2)
    if len(items) == 1 and tests < max_tests and test([]):
        items = []
    return items


def minimise(check, case: dict, violation: dict, budget_s=60.0):
    """Shrink case while the same violation class persists. Deterministic given
    the code: only wall-time caps how far it gets, never what a step does."""
    want = vclass(violation)
    t0 = time.time()
    best, bestv = case, violation
    steps = 0

    def fails(c):
        nonlocal steps
        if time.time() - t0 > budget_s:
            return None
        steps += 1
        try:
            r = in_fork(lambda: run_case(check, c), timeout=check.run_timeout_s) if check.isolate else run_case(check, c)
        except Exception:  # noqa: BLE001  (a shrunk case may be nonsense for the harness: not a failure)
            return None
        v = r.get("violation")
        if v and vclass(v) == want:
            return v
        return None

    for field in check.shrink_fields(best):
        cur = get_path(best, field)
        if not isinstance(cur, list) or len(cur) < 1:
            continue

        def t(sub, field=field):
            nonlocal best, bestv
            c = set_path(best, field, sub)
            v = fails(c)
            if v:
                best, bestv = c, v
                return True
            return False

        ddmin_list(cur, t)
    for cand_fn in (check.shrink_candidates,):
        improved = True
        rounds = 0
        while improved and rounds < 20 and time.time() - t0 < budget_s:
            improved = False
            rounds += 1
            for c in cand_fn(best):
                v = fails(c)
                if v:
                    best, bestv = c, v
                    improved = True
                    break
    return best, bestv, steps


def get_path(d, path):
    for p in path:
        d = d[p]
    return d


def set_path(d, path, value):
    d2 = json.loads(json.dumps(d))
    x = d2
    for p in path[:-1]:
        x = x[p]
    x[path[-1]] = value
    return d2


# ---------------------------------------------------------------- check base


class Check:
    """One property. Subclasses give generate() and execute(); both are pure
    functions of their argument and the code under test."""

    pid = "C00"
    level = "exploration"
    rule = ""
    assumptions: list = []
    real_components: list = []
    stubbed_components: list = []
    quick_runs = 100
    thorough_runs = 10000
    quick_budget_s = 60.0
    thorough_budget_s = 1500.0
    chunk = 8
    run_timeout_s = 120.0
    isolate = False  # True: every run (and every minimisation step) in its own forked process

    def setup(self):
        """Called once in the parent before forking (imports, corpus, oracles)."""

    def generate(self, seed: int, tier: str) -> dict:
        raise NotImplementedError

    def execute(self, case: dict) -> dict:
        """-> {'violation': None|{invariant, kind, sig, detail}, 'digest': str,
        'nontrivial': bool, 'stats': {counter: int}, 'steps': int}"""
        raise NotImplementedError

    def shrink_fields(self, case):
        return [["ops"]] if "ops" in case else []

    def shrink_candidates(self, case):
        return iter(())

    def extra_phases(self, tier, seed, report):
        """Optional deterministic non-seeded phases (exhaustive alphabets,
        calibration); append to report."""

    def describe_case(self, case):
        return case


# ---------------------------------------------------------------- batch runner


_CHECK = None  # set in the parent before the pool forks; never pickled


# ---------------------------------------------------------------- process environment knobs
def gen_env(seed):
    """Per-run settings of the process the library runs in. They are part of the case (and of its replay file)."""
    r = Streams(seed)("env")
    return {"debug_logging": r.random() < 0.1}


def apply_env(env):
    """The library logs through the 'mappyfile' logger; an application (or `mappyfile -vv`) may have it at DEBUG.
    No result may depend on that. Output goes nowhere either way."""
    import logging

    lg = logging.getLogger("mappyfile")
    if (env or {}).get("debug_logging"):
        logging.disable(logging.NOTSET)
        lg.setLevel(logging.DEBUG)
        lg.propagate = False
        if not lg.handlers:
            lg.addHandler(logging.NullHandler())
    else:
        logging.disable(logging.CRITICAL)
        lg.setLevel(logging.NOTSET)


def run_case(check, case):
    apply_env(case.get("env") if isinstance(case, dict) else None)
    return check.execute(case)


def _worker_chunk(args):
    base_seed, tier, idxs = args
    check = _CHECK
    faulthandler.dump_traceback_later(check.run_timeout_s * len(idxs) + 30, exit=True)
    out = []
    for idx in idxs:
        seed = run_seed(base_seed, check.pid, idx)
        if check.isolate:
            # every run in its own pristine fork of this (never-executing) worker
            try:
                rec = in_fork(lambda: _one_run(check, seed, tier, idx), timeout=check.run_timeout_s)
            except HarnessError as e:
                rec = {"idx": idx, "seed": seed, "harness_error": str(e)}
            out.append(rec)
            continue
        out.append(_one_run(check, seed, tier, idx))
    faulthandler.cancel_dump_traceback_later()
    return out


def _one_run(check, seed, tier, idx):
    if True:
        try:
            gi = getattr(check, "generate_idx", None)
            case = gi(seed, tier, idx) if gi else check.generate(seed, tier)
            if isinstance(case, dict):
                case.setdefault("env", gen_env(seed))
            r = run_case(check, case)
            rec = {
                "idx": idx,
                "seed": seed,
                "digest": r.get("digest"),
                "nontrivial": bool(r.get("nontrivial")),
                "stats": r.get("stats", {}),
                "steps": r.get("steps", 0),
                "violation": r.get("violation"),
            }
            if r.get("violation") or idx < 3:
                if isinstance(r.get("case_explicit"), dict) and isinstance(case, dict):
                    r["case_explicit"].setdefault("env", case.get("env"))
                rec["case"] = r.get("case_explicit") or case
                if r.get("case_explicit") is not None:
                    rec["case_generated"] = case
            if r.get("cover"):
                rec["cover"] = r["cover"]
            if r.get("tags"):
                rec["tags"] = r["tags"]
        except Exception as e:  # noqa: BLE001
            rec = {
                "idx": idx,
                "seed": seed,
                "harness_error": "".join(
                    traceback.format_exception(type(e), e, e.__traceback__)
                )[-3000:],
            }
        return rec


def run_batch(check: Check, tier: str, base_seed: int, script: str) -> int:
    from concurrent.futures import ProcessPoolExecutor, wait, FIRST_COMPLETED
    import multiprocessing as mp

    global _CHECK
    _CHECK = check

    t0 = time.time()
    print(f"VERIF_SEED={base_seed} property={check.pid} tier={tier} repo={REPO}")
    sys.stdout.flush()
    check.setup()
    n_runs = int(
        os.environ.get(
            "VERIF_RUNS", check.quick_runs if tier == "quick" else check.thorough_runs
        )
    )
    budget = float(
        os.environ.get(
            "VERIF_BUDGET_S",
            check.quick_budget_s if tier == "quick" else check.thorough_budget_s,
        )
    )
    workers = int(os.environ.get("VERIF_WORKERS", "16"))
    known = load_known(check.pid)

    report = {
        "evaluations": 0,
        "digests": set(),
        "nontrivial_digests": set(),
        "stats": {},
        "steps": 0,
        "samples": [],
        "violations": [],
        "known_hits": {},
        "harness_errors": [],
        "extra": {},
        "cover": set(),
    }

    check.extra_phases(tier, base_seed, report)

    chunks = [
        list(range(i, min(i + check.chunk, n_runs))) for i in range(0, n_runs, check.chunk)
    ]
    timed_out = False
    if workers <= 1:
        results_iter = (_worker_chunk((base_seed, tier, c)) for c in chunks)
        for recs in results_iter:
            _absorb(report, recs, known)
            if time.time() - t0 > budget:
                timed_out = True
                break
    else:
        ctx = mp.get_context("fork")
        with ProcessPoolExecutor(max_workers=workers, mp_context=ctx) as ex:
            pending = set()
            it = iter(chunks)
            # keep 2 chunks per worker in flight so the budget can stop the batch
            for _ in range(workers * 2):
                c = next(it, None)
                if c is None:
                    break
                pending.add(ex.submit(_worker_chunk, (base_seed, tier, c)))
            while pending:
                done_set, pending = wait(
                    pending,
                    timeout=check.run_timeout_s * check.chunk + 60,
                    return_when=FIRST_COMPLETED,
                )
                if not done_set:
                    report["harness_errors"].append("pool made no progress: hang")
                    for p_ in pending:
                        p_.cancel()
                    break
                for done in done_set:
                    try:
                        recs = done.result()
                    except Exception as e:  # worker died (watchdog) -> harness error
                        report["harness_errors"].append(f"worker died: {e!r}")
                        recs = []
                    _absorb(report, recs, known)
                if time.time() - t0 > budget:
                    timed_out = True
                    for p_ in list(pending):
                        if p_.cancel():
                            pending.discard(p_)
                if not timed_out and report.get("unlisted", 0) < 40:
                    for _ in range(len(done_set)):
                        c = next(it, None)
                        if c is not None:
                            pending.add(ex.submit(_worker_chunk, (base_seed, tier, c)))
    report["budget_exhausted"] = timed_out

    # ---- triage violations: known / new; minimise, write replay, confirm
    exit_code = EXIT_OK
    seen_classes = {}
    new_reported = 0
    for rec in sorted(report["violations"], key=lambda r: r["idx"]):
        v = rec["violation"]
        k = match_known(known, v)
        if k is not None:
            report["known_hits"].setdefault(k["id"], 0)
            report["known_hits"][k["id"]] += 1
            continue
        key = vclass(v) + "|" + json.dumps(v.get("sig", {}), sort_keys=True)
        if key in seen_classes or new_reported >= 5:
            seen_classes[key] = seen_classes.get(key, 0) + 1
            continue
        seen_classes[key] = 1
        case = rec["case"]
        if "case_generated" in rec:
            # the explicit (generator-free) form must fail on its own in a pristine process; if it only failed
            # in the context it was cut out of, the generated case is the replay
            try:
                r0 = in_fork(lambda: run_case(check, case), timeout=check.run_timeout_s) if check.isolate else run_case(check, case)
                ok0 = bool(r0.get("violation")) and vclass(r0["violation"]) == vclass(v)
            except Exception:  # noqa: BLE001
                ok0 = False
            if not ok0:
                case = rec["case_generated"]
        mcase, mv, msteps = minimise(check, case, v, budget_s=float(os.environ.get("VERIF_MIN_S", "45")))
        k2 = match_known(known, mv)
        if k2 is not None:
            # minimisation walked into a listed finding; report the original
            mcase, mv = case, v
        path = os.path.join(REPLAYS, f"{check.pid}-{base_seed}-{rec['idx']}.json")
        with open(path, "w", encoding="utf-8") as f:
            json.dump(
                {
                    "property": check.pid,
                    "verif_seed": base_seed,
                    "run_index": rec["idx"],
                    "run_seed": rec["seed"],
                    "expected_class": vclass(mv),
                    "violation": mv,
                    "minimise_steps": msteps,
                    "case": mcase,
                    "original_case_size": len(json.dumps(case)),
                },
                f,
                indent=1,
                ensure_ascii=True,
            )
        ok, outp = confirm_replay(script, path, vclass(mv))
        if not ok:
            report["harness_errors"].append(
                f"replay {path} did not reproduce in a fresh process: {outp[-500:]}"
            )
            continue
        new_reported += 1
        exit_code = EXIT_VIOLATION
        print(f"VIOLATION property={check.pid} replay={path}")
        print(f"  invariant={mv.get('invariant')} kind={mv.get('kind')} sig={json.dumps(mv.get('sig', {}), sort_keys=True)}")
        print(f"  detail={str(mv.get('detail'))[:600]}")
    for kid, n in sorted(report["known_hits"].items()):
        e = next(x for x in known if x["id"] == kid)
        print(f"KNOWN-FINDING: property={check.pid} {e['what']} (hit {n}x this run)")

    if report["harness_errors"]:
        for h in report["harness_errors"][:5]:
            print("HARNESS-ERROR:", h)
        if exit_code == EXIT_OK:
            exit_code = EXIT_HARNESS

    wall = time.time() - t0
    write_evidence(check, tier, base_seed, report, wall, exit_code)
    print(
        f"{check.pid} {tier}: runs={report['evaluations']} distinct={len(report['digests'])} "
        f"nontrivial_distinct={len(report['nontrivial_digests'])} steps={report['steps']} "
        f"violations={len(report['violations'])} known_hits={sum(report['known_hits'].values())} "
        f"wall={wall:.1f}s exit={exit_code}"
    )
    return exit_code


def _absorb(report, recs, known=()):
    for rec in recs:
        if "harness_error" in rec:
            report["harness_errors"].append(f"run {rec['idx']} seed {rec['seed']}: {rec['harness_error']}")
            continue
        report["evaluations"] += 1
        report["steps"] += rec.get("steps", 0)
        d = rec.get("digest")
        if d:
            report["digests"].add(d)
            if rec.get("nontrivial"):
                report["nontrivial_digests"].add(d)
        for k, n in rec.get("stats", {}).items():
            report["stats"][k] = report["stats"].get(k, 0) + n
        if rec.get("cover"):
            report["cover"].update(rec["cover"])
        for tk, tv in (rec.get("tags") or {}).items():
            report.setdefault("tagsets", {}).setdefault(tk, set()).add(tv)
        if rec.get("violation"):
            report["violations"].append(rec)
            if match_known(known, rec["violation"]) is None:
                report["unlisted"] = report.get("unlisted", 0) + 1
        if "case" in rec and len(report["samples"]) < 3 and not rec.get("violation"):
            report["samples"].append(rec["case"])


def confirm_replay(script: str, path: str, want_class: str):
    env = dict(os.environ)
    try:
        p = subprocess.run(
            [sys.executable, script, "--replay", path],
            capture_output=True,
            text=True,
            timeout=300,
            env=env,
        )
    except subprocess.TimeoutExpired:
        return False, "timeout"
    out = p.stdout + p.stderr
    ok = p.returncode == 1 and f"REPLAY-VIOLATION class={want_class}" in p.stdout
    return ok, out


def replay_main(check: Check, path: str) -> int:
    """`check.py --replay file`: re-execute the recorded case, nothing generated."""
    with open(path, encoding="utf-8") as f:
        rep = json.load(f)
    check.setup()
    r = run_case(check, rep["case"])
    v = r.get("violation")
    if not v:
        print(f"REPLAY-CLEAN property={check.pid} file={path}")
        return EXIT_OK
    print(f"REPLAY-VIOLATION class={vclass(v)}")
    print(f"VIOLATION property={check.pid} replay={path}")
    print(json.dumps(v, indent=1, default=str)[:4000])
    return EXIT_VIOLATION


def _trim(x, limit=6000):
    s = json.dumps(x, default=str)
    if len(s) <= limit:
        return x
    return {"truncated_json": s[:limit]}


def write_evidence(check, tier, seed, report, wall, exit_code):
    n = report["evaluations"]
    cov = {
        "evaluations": n + int(report["extra"].get("extra_evaluations", 0)),
        "distinct_nontrivial": len(report["nontrivial_digests"])
        + int(report["extra"].get("extra_distinct", 0)),
        "rule": check.rule,
        "samples": [_trim(check.describe_case(s)) for s in report["samples"]]
        or [{"note": "no sample captured"}],
        "distinct_run_digests": len(report["digests"]),
        "logical_steps": report["steps"],
        "simulated_time": "the code under test has no clock; time is counted in logical steps (operations / line events / I/O events) only",
        "runs_per_hour": round(n / wall * 3600) if wall > 0 else 0,
        "seeds_per_hour": round(n / wall * 3600) if wall > 0 else 0,
        "counters": dict(sorted(report["stats"].items())),
        "faults_fired": {
            k[len("fault."):]: v for k, v in sorted(report["stats"].items()) if k.startswith("fault.")
        },
        "components_real": check.real_components,
        "components_stubbed": check.stubbed_components,
        "budget_exhausted_before_all_runs": bool(report.get("budget_exhausted")),
        "known_finding_hits": report["known_hits"],
        "harness_errors": len(report["harness_errors"]),
        "exit_code": exit_code,
    }
    if report["cover"]:
        cov["coverage_pairs_reached"] = len(report["cover"])
    for tk, tv in sorted((report.get("tagsets") or {}).items()):
        cov["distinct_" + tk] = len(tv)
    for k, v in report["extra"].items():
        if k not in ("extra_evaluations", "extra_distinct"):
            cov[k] = v
    ev = {
        "property_id": check.pid,
        "tier": tier,
        "seed": seed,
        "level": check.level,
        "coverage": cov,
        "assumptions": check.assumptions,
        "wall_s": round(wall, 2),
        "violations": len(report["violations"]) - sum(report["known_hits"].values()),
    }
    os.makedirs(EVIDENCE, exist_ok=True)
    tmp = os.path.join(EVIDENCE, f".{check.pid}.json.tmp")
    with open(tmp, "w", encoding="utf-8") as f:
        json.dump(ev, f, indent=1, default=str)
    os.replace(tmp, os.path.join(EVIDENCE, f"{check.pid}.json"))


def main(check: Check, script: str):
    import argparse

    ap = argparse.ArgumentParser()
    ap.add_argument("--tier", default=None)
    ap.add_argument("--replay", default=None)
    ap.add_argument("--one", type=int, default=None, help="run a single index verbosely")
    ap.add_argument("--digests", type=int, default=None, help="print run digests of the first N indices")
    a = ap.parse_args()
    try:
        if a.replay:
            sys.exit(replay_main(check, a.replay))
        tier = a.tier or env_tier()
        if a.digests is not None:
            check.setup()
            for i in range(a.digests):
                seed = run_seed(env_seed(), check.pid, i)
                gi = getattr(check, "generate_idx", None)
                case_ = gi(seed, tier, i) if gi else check.generate(seed, tier)
                case_.setdefault("env", gen_env(seed))
                r = in_fork(lambda: run_case(check, case_), timeout=check.run_timeout_s) if check.isolate else run_case(check, case_)
                print(f"DIGEST {i} {r.get('digest')} {r.get('steps')} {vclass(r['violation']) if r.get('violation') else '-'}")
            sys.exit(EXIT_OK)
        if a.one is not None:
            check.setup()
            seed = run_seed(env_seed(), check.pid, a.one)
            gi = getattr(check, "generate_idx", None)
            case = gi(seed, tier, a.one) if gi else check.generate(seed, tier)
            case.setdefault("env", gen_env(seed))
            r = run_case(check, case)
            print(json.dumps({"case": case, "result": r}, indent=1, default=str)[:20000])
            sys.exit(EXIT_VIOLATION if r.get("violation") else EXIT_OK)
        sys.exit(run_batch(check, tier, env_seed(), script))
    except HarnessError as e:
        print("HARNESS-ERROR:", e)
        sys.exit(EXIT_HARNESS)
