#!/venv/bin/python
"""MANIFEST.setup_cmd: nothing to build; prove the interpreter and imports."""
import os, sys
sys.path.insert(0, os.path.dirname(os.path.dirname(os.path.abspath(__file__))))
assert sys.version_info >= (3, 12), "sys.monitoring needs Python >= 3.12"
import lark, jsonschema, jsonref, click, referencing  # noqa
from sim import core
core.import_repo()
for d in (core.OUT, core.EVIDENCE, core.REPLAYS):
    os.makedirs(d, exist_ok=True)
print("setup ok: python", sys.version.split()[0], "repo", core.REPO)
