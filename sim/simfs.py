"""
simfs - the file tree, the working directory and byte streams behind one seam.

An in-memory tree mounted under PREFIX is served through one dispatcher
installed at builtins.open, io.open and mappyfile.parser.open (bound to io.open
at import); everything else falls through to the real open, passing the same
fault plan. os.getcwd is simulated too (posixpath.abspath reads it through the
os module, so INCLUDE resolution follows it). Files are served as
io.TextIOWrapper(BytesIO) built with the caller's own mode / encoding /
newline / errors, so the real codec and newline-translation code runs; only
the block layer is a stub.

Every open / close / write is appended to `history` with a global sequence
number. A fault plan is a list of crash points, each keyed by the k-th matching
I/O event (not a probability): {"op": "open"|"write"|"read", "cls": <class>,
"k": int, "err": "ENOENT"|"EACCES"|"EISDIR"|"EIO"|"ENOSPC", "after": bytes}.
"""

from __future__ import annotations

import builtins
import errno
import io
import os

PREFIX = "/simfs"

_real_open = io.open
_real_getcwd = os.getcwd
_real_chdir = os.chdir
_real_stat = os.stat
_real_lstat = os.lstat
_real_replace = os.replace
_real_rename = os.rename
_real_remove = os.remove
_real_unlink = os.unlink

IO_HOOK = None  # optional callable(kind, path): called before an operation on the simulated tree takes effect
ACTIVE = None  # the SimFS of the run in progress
_installed = False


def classify(path: str) -> str:
    if path.startswith(PREFIX + "/") or path == PREFIX:
        return "simfs"
    if path.endswith(".json") and os.sep + "schemas" + os.sep in path:
        return "schema"
    if path.endswith(".lark"):
        return "grammar"
    return "other"


class _Mem(io.BytesIO):
    """Block layer of one open simulated file."""

    def __init__(self, fs, path, data, writable, fault=None, name=None):
        super().__init__(data if not writable else b"")
        self._fs, self._path, self._writable, self._fault = fs, path, writable, fault
        self._written = 0
        self.name = name if name is not None else path  # like a real file: the name as given to open()
        self._closed_once = False

    def write(self, b):
        fs = self._fs
        f = self._fault
        n = len(b)
        if f is not None and f["op"] == "write" and self._written + n > f.get("after", 0):
            room = max(0, f.get("after", 0) - self._written)
            if room:
                super().write(bytes(b[:room]))
                self._written += room
            fs.event("write_fault", self._path, f["err"], room)
            fs.fired(f)
            self._fault = None
            raise OSError(getattr(errno, f["err"]), os.strerror(getattr(errno, f["err"])), self._path)
        self._written += n
        fs.event("write", self._path, n)
        return super().write(b)

    def read(self, *a):
        f = self._fault
        if f is not None and f["op"] == "read":
            self._fault = None
            self._fs.event("read_fault", self._path, f["err"])
            self._fs.fired(f)
            raise OSError(getattr(errno, f["err"]), os.strerror(getattr(errno, f["err"])), self._path)
        return super().read(*a)

    def close(self):
        if not self._closed_once:
            if IO_HOOK is not None:
                IO_HOOK("close", self._path)
            self._closed_once = True
            if self._writable:
                self._fs.files[self._path] = self.getvalue()
            self._fs.open_handles -= 1
            self._fs.event("close", self._path)
        super().close()


class SimFS:
    def __init__(self, files=None, cwd=PREFIX, faults=None, default_encoding="utf-8"):
        # what open() uses when the caller names no encoding: the platform's locale encoding. Simulating a
        # non-UTF-8 locale (cp1252 is what Windows gives) exposes any library open() that forgot encoding=
        self.default_encoding = default_encoding
        self.files = {}  # path -> bytes
        self.dirs = {PREFIX}
        for p, data in (files or {}).items():
            self.add(p, data)
        self.cwd = cwd
        self.history = []
        self.seq = 0
        self.open_handles = 0
        self.faults = [dict(f, _n=0, _done=False) for f in (faults or [])]
        self.fired_faults = []
        self.fired_by_thread = {}

    # ---- tree
    def add(self, path, data):
        if isinstance(data, str):
            data = data.encode("utf-8")
        self.files[path] = data
        d = os.path.dirname(path)
        while d and d not in self.dirs and len(d) >= len(PREFIX):
            self.dirs.add(d)
            d = os.path.dirname(d)

    def mkdir(self, path):
        self.dirs.add(path)

    # ---- history / faults
    def event(self, *ev):
        self.seq += 1
        self.history.append((self.seq,) + ev)

    def fired(self, f):
        import _thread

        rec = {k: v for k, v in f.items() if not k.startswith("_")}
        self.fired_by_thread.setdefault(_thread.get_ident(), []).append(rec)
        self.fired_faults.append(rec)

    def _match_fault(self, op, cls, path):
        for f in self.faults:
            if f["_done"] or f["op"] != op:
                continue
            want = f.get("cls", "any")
            if want != "any" and want != cls:
                continue
            sub = f.get("path")
            if sub and sub not in path:
                continue
            f["_n"] += 1
            if f["_n"] == f.get("k", 1):
                f["_done"] = True
                return f
        return None

    # ---- the seam
    def open(self, file, mode="r", buffering=-1, encoding=None, errors=None, newline=None, closefd=True, opener=None):
        if isinstance(file, int) or opener is not None:
            return _real_open(file, mode, buffering, encoding, errors, newline, closefd, opener)
        path = os.fspath(file)
        if isinstance(path, bytes):
            path = path.decode()
        if not os.path.isabs(path):
            full = os.path.normpath(os.path.join(self.cwd, path))
        else:
            full = os.path.normpath(path)
        cls = classify(full)
        writing = any(c in mode for c in "wax+")
        if IO_HOOK is not None and cls == "simfs":
            IO_HOOK("open", full)
        self.event("open", full, mode, cls)
        f = self._match_fault("open", cls, full)
        if f is not None:
            self.event("open_fault", full, f["err"])
            self.fired(f)
            raise OSError(getattr(errno, f["err"]), os.strerror(getattr(errno, f["err"])), full)
        if cls != "simfs":
            if writing:
                raise PermissionError(errno.EACCES, "simfs: write outside the simulated tree refused", full)
            fobj = _real_open(path, mode, buffering, encoding, errors, newline, closefd, opener)
            rf = self._match_fault("read", cls, full)
            if rf is not None:
                fobj.close()
                self.event("read_fault", full, rf["err"])
                self.fired(rf)
                raise OSError(getattr(errno, rf["err"]), os.strerror(getattr(errno, rf["err"])), full)
            return fobj
        # ---- simulated tree
        if full in self.dirs:
            raise IsADirectoryError(errno.EISDIR, os.strerror(errno.EISDIR), full)
        if writing:
            if os.path.dirname(full) not in self.dirs:
                raise FileNotFoundError(errno.ENOENT, os.strerror(errno.ENOENT), full)
            wf = self._match_fault("write", cls, full)
            if "w" in mode:
                self.files[full] = b""  # truncation happens at open, as on a real file system
            raw = _Mem(self, full, b"", True, wf, name=path)
        else:
            if full not in self.files:
                raise FileNotFoundError(errno.ENOENT, os.strerror(errno.ENOENT), full)
            rf = self._match_fault("read", cls, full)
            raw = _Mem(self, full, self.files[full], False, rf, name=path)
        self.open_handles += 1
        if "b" in mode:
            return raw
        return io.TextIOWrapper(raw, encoding=encoding or self.default_encoding, errors=errors, newline=newline, write_through=True)

    def stat(self, path, real, **kw):
        """os.stat / os.lstat seam (os.path.exists / isfile / isdir go through it)."""
        if isinstance(path, int):
            return real(path, **kw)
        p = os.fspath(path)
        if isinstance(p, bytes):
            p = p.decode()
        full = os.path.normpath(p if os.path.isabs(p) else os.path.join(self.cwd, p))
        if classify(full) != "simfs":
            return real(path, **kw)
        self.event("stat", full)
        import stat as st

        if full in self.files:
            return os.stat_result((st.S_IFREG | 0o644, 1, 1, 1, 0, 0, len(self.files[full]), 0, 0, 0))
        if full in self.dirs:
            return os.stat_result((st.S_IFDIR | 0o755, 1, 1, 2, 0, 0, 0, 0, 0, 0))
        raise FileNotFoundError(errno.ENOENT, os.strerror(errno.ENOENT), p)

    def _full(self, p):
        p = os.fspath(p)
        if isinstance(p, bytes):
            p = p.decode()
        return os.path.normpath(p if os.path.isabs(p) else os.path.join(self.cwd, p))

    def replace(self, src, dst, real):
        a, b = self._full(src), self._full(dst)
        if classify(a) != "simfs" and classify(b) != "simfs":
            return real(src, dst)
        if IO_HOOK is not None:
            IO_HOOK("rename", a)
        self.event("rename", a, b)
        if a not in self.files:
            raise FileNotFoundError(errno.ENOENT, os.strerror(errno.ENOENT), a)
        self.files[b] = self.files.pop(a)

    def remove(self, path, real):
        a = self._full(path)
        if classify(a) != "simfs":
            return real(path)
        if IO_HOOK is not None:
            IO_HOOK("remove", a)
        self.event("remove", a)
        if a not in self.files:
            raise FileNotFoundError(errno.ENOENT, os.strerror(errno.ENOENT), a)
        del self.files[a]

    def opens(self, cls=None):
        return [e for e in self.history if e[1] == "open" and (cls is None or e[4] == cls)]


def _dispatch_open(file, mode="r", buffering=-1, encoding=None, errors=None, newline=None, closefd=True, opener=None):
    fs = ACTIVE
    if fs is None:
        return _real_open(file, mode, buffering, encoding, errors, newline, closefd, opener)
    return fs.open(file, mode, buffering, encoding, errors, newline, closefd, opener)


def _dispatch_getcwd():
    fs = ACTIVE
    if fs is None:
        return _real_getcwd()
    return fs.cwd


def _dispatch_chdir(path):
    """the working directory is process-wide state like any other: a simulated directory becomes the simulated
    cwd (and an io pre-emption point, so that other threads can look at it in between)"""
    fs = ACTIVE
    if fs is None:
        return _real_chdir(path)
    p = os.fspath(path)
    if isinstance(p, bytes):
        p = os.fsdecode(p)
    full = os.path.normpath(p if os.path.isabs(p) else os.path.join(fs.cwd, p))
    if IO_HOOK is not None:
        IO_HOOK("chdir", full)
    if full in fs.dirs:
        fs.cwd = full
        fs.chdirs = getattr(fs, "chdirs", 0) + 1
        return None
    if full.startswith(PREFIX):
        raise FileNotFoundError(errno.ENOENT, os.strerror(errno.ENOENT), p)
    # a real directory (the stub-fidelity replays run the same code over a real tree): the real thing, mirrored
    _real_chdir(path)
    fs.cwd = _real_getcwd()
    return None


def _dispatch_stat(path, *a, **kw):
    fs = ACTIVE
    if fs is None or a:
        return _real_stat(path, *a, **kw)
    return fs.stat(path, _real_stat, **kw)


def _dispatch_lstat(path, *a, **kw):
    fs = ACTIVE
    if fs is None or a:
        return _real_lstat(path, *a, **kw)
    return fs.stat(path, _real_lstat, **kw)


def _dispatch_replace(src, dst, **kw):
    fs = ACTIVE
    return _real_replace(src, dst, **kw) if fs is None or kw else fs.replace(src, dst, _real_replace)


def _dispatch_rename(src, dst, **kw):
    fs = ACTIVE
    return _real_rename(src, dst, **kw) if fs is None or kw else fs.replace(src, dst, _real_rename)


def _dispatch_remove(path, **kw):
    fs = ACTIVE
    return _real_remove(path, **kw) if fs is None or kw else fs.remove(path, _real_remove)


def install():
    """Install the dispatcher at every binding the library reads files through."""
    global _installed
    if _installed:
        return
    _installed = True
    builtins.open = _dispatch_open
    io.open = _dispatch_open
    os.getcwd = _dispatch_getcwd
    os.chdir = _dispatch_chdir
    os.stat = _dispatch_stat
    os.lstat = _dispatch_lstat
    os.replace = _dispatch_replace
    os.rename = _dispatch_rename
    os.remove = _dispatch_remove
    os.unlink = _dispatch_remove
    import mappyfile.parser as mp

    if getattr(mp, "open", None) is not None:
        mp.open = _dispatch_open


class mounted:
    """with mounted(fs): ... - the simulated world is visible only inside."""

    def __init__(self, fs):
        self.fs = fs

    def __enter__(self):
        global ACTIVE
        self.prev = ACTIVE
        ACTIVE = self.fs
        return self.fs

    def __exit__(self, *a):
        global ACTIVE
        ACTIVE = self.prev
