"""
workload - documents for the system to chew on. Not an oracle, only traffic.

* corpus():      the *.map files shipped under $VERIF_REPO/tests and /docs
* SchemaGen:     schema-driven generator reading the raw JSON schema files at
                 run time (block types, parent/child edges, keywords, one
                 representative per value alternative), one keyword per line
* breakers:      token deletion / duplication / truncation (parse errors)
Everything is a deterministic function of the random.Random passed in.
"""

from __future__ import annotations

import json
import os
import re

from . import core

_corpus_cache = {}


def corpus(max_bytes=None):
    """[(relative path, text)] sorted by path; only files that decode as UTF-8."""
    key = (core.REPO, max_bytes)
    if key in _corpus_cache:
        return _corpus_cache[key]
    out = []
    for sub in ("tests", "docs"):
        root = os.path.join(core.REPO, sub)
        if not os.path.isdir(root):
            root = os.path.join("/repo", sub)
        for dp, dn, fns in sorted(os.walk(root, followlinks=True)):
            dn.sort()
            for fn in sorted(fns):
                if not fn.endswith(".map"):
                    continue
                p = os.path.join(dp, fn)
                try:
                    with open(p, "rb") as f:
                        b = f.read()
                    t = b.decode("utf-8")
                except (OSError, UnicodeDecodeError):
                    continue
                if max_bytes and len(b) > max_bytes:
                    continue
                out.append((os.path.relpath(p, os.path.dirname(root)), t))
    _corpus_cache[key] = out
    return out


INCLUDE_RE = re.compile(r"^\s*include\b", re.I | re.M)


def include_free(docs):
    return [(p, t) for p, t in docs if not INCLUDE_RE.search(t)]


# ---------------------------------------------------------------- schema-driven generator


class SchemaGen:
    """Small documents built from the raw schema vocabulary."""

    def __init__(self):
        self.dir = os.path.join(core.REPO, "mappyfile", "schemas")
        self.raw = {}
        for fn in sorted(os.listdir(self.dir)):
            if fn.endswith(".json"):
                with open(os.path.join(self.dir, fn), encoding="utf-8") as f:
                    self.raw[fn[:-5]] = json.load(f)

    def props(self, typ):
        return self.raw.get(typ, {}).get("properties", {})

    STR = ["roads", "Layer 1", "a.b", "x_y", "café", "中文", "value-7"]

    def simple_value(self, r, typ, key, spec):
        """A rendered value for keyword `key`, or None if we do not render this shape."""
        if "$ref" in spec:
            return None
        if "enum" in spec:
            vals = [v for v in spec["enum"] if isinstance(v, str) and re.fullmatch(r"[a-z][a-z0-9_-]*", v)]
            if not vals:
                return None
            v = r.choice(vals)
            return v.upper() if r.random() < 0.7 else v
        t = spec.get("type")
        if t == "string":
            return '"%s"' % r.choice(self.STR)
        if t == "integer":
            lo = spec.get("minimum", 0)
            hi = spec.get("maximum", lo + 100)
            return str(r.randint(int(lo), int(max(lo, min(hi, lo + 100)))))
        if t == "number":
            lo = spec.get("minimum", 0)
            v = lo + r.choice([0, 1, 2.5])
            # the same value written as an integer or as a float (1 / 1.0): both are legal and load differently
            return str(float(v)) if r.random() < 0.4 else (str(int(v)) if float(v).is_integer() else str(v))
        if t == "boolean":
            return r.choice(["TRUE", "FALSE"])
        return None

    # hand-written keyword lines in value shapes the schema walk above does not render
    # (lists, colours, bindings, expressions, repeated keys, nested END blocks)
    EXTRAS = {
        "style": ['COLOR 255 0 0', 'COLOR "#ff00aa"', 'COLOR [mycolor]', 'COLORRANGE "#0000ff" "#ff0000"', 'COLORRANGE 0 0 0 255 255 255',
                  'DATARANGE 0 10', 'OFFSET 1 2', 'OFFSET [ox] [oy]', 'PATTERN 1 2 3 4 END', 'SIZE [size]', 'WIDTH 2.5',
                  'GEOMTRANSFORM "bbox"', 'GEOMTRANSFORM (buffer([shape], 5))', 'SYMBOL "circle"', 'SYMBOL 0', 'ANGLE AUTO', 'ANGLE [rot]',
                  'OUTLINECOLOR 0 0 0', 'POLAROFFSET [r] [a]', 'OPACITY 50'],
        "label": ['COLOR 0 0 0', 'SHADOWSIZE 1 1', 'SHADOWSIZE [sx] [sy]', 'OFFSET 2 2', 'POSITION AUTO', 'POSITION uc', 'SIZE 10', 'SIZE [size]',
                  'TEXT "[name]"', 'TEXT ([a] + [b])', 'EXPRESSION ([x] > 3)', 'FONT "sans"', 'TYPE TRUETYPE', 'OUTLINECOLOR "#ffffff"',
                  'ANGLE FOLLOW', 'PRIORITY [prio]', 'ALIGN CENTER', 'FORCE GROUP', 'BUFFER 2'],
        "class": ['EXPRESSION "x"', 'EXPRESSION ([POP] > 100 AND [POP] < 500)', 'EXPRESSION /^a.*/', 'EXPRESSION {a,b,c}', 'TEXT ([name])',
                  'NAME "c"', 'GROUP "g"', 'KEYIMAGE "k.png"', 'MINSCALEDENOM 100', 'STATUS ON'],
        "layer": ['PROCESSING "BANDS=1,2,3"', 'PROCESSING "SCALE=0,255"', 'PROJECTION\n "init=epsg:4326"\n END', 'EXTENT -180 -90 180 90',
                  'FILTER ([x] = 1)', 'FILTERITEM "x"', 'DATA "file.shp"', 'FEATURE\n POINTS\n 1 1\n 2 2\n END\n END', 'CONNECTIONTYPE OGR',
                  'CONNECTIONOPTIONS\n "k" "v"\n END', 'COMPOSITE\n OPACITY 50\n END', 'NAME "roads"', 'GROUP "roads"', 'GROUP "road"', 'STATUS OFF',
                  'CLASSITEM "type"', 'LABELITEM "name"', 'OFFSITE 0 0 0', 'TOLERANCE 3', 'UNITS METERS'],
        "map": ['EXTENT 0 0 10 10', 'SIZE 400 300', 'IMAGECOLOR 255 255 255', 'PROJECTION\n AUTO\n END', 'CONFIG "MS_ERRORFILE" "stderr"',
                'CONFIG "PROJ_LIB" "/usr/share/proj"', 'OUTPUTFORMAT\n NAME "png"\n DRIVER "AGG/PNG"\n FORMATOPTION "GAMMA=0.75"\n FORMATOPTION "X=1"\n END',
                'SYMBOL\n NAME "s"\n TYPE ELLIPSE\n POINTS\n 1 1\n END\n FILLED TRUE\n END', 'FONTSET "fonts.txt"', 'UNITS DD', 'IMAGETYPE "png"',
                'SHAPEPATH "data"', 'MAXSIZE 4096', 'RESOLUTION 96'],
        "web": ['IMAGEPATH "/tmp/"', 'IMAGEURL "/tmp/"', 'TEMPLATE "t.html"'],
        "legend": ['KEYSIZE 20 10', 'KEYSPACING 5 5', 'IMAGECOLOR 255 255 255', 'POSITION LL', 'STATUS EMBED', 'LABEL\n SIZE 8\n END'],
        "scalebar": ['SIZE 200 3', 'COLOR 0 0 0', 'UNITS KILOMETERS', 'INTERVALS 4', 'STYLE 1', 'POSITION LR'],
        "querymap": ['SIZE 100 100', 'COLOR 255 255 0'],
        "reference": ['EXTENT 0 0 1 1', 'SIZE 100 100', 'IMAGE "ref.png"', 'COLOR -1 -1 -1'],
    }

    CHILDREN = {
        "map": ["layer", "web", "legend", "scalebar", "querymap", "reference"],
        "layer": ["class", "metadata", "validation"],
        "class": ["style", "label"],
        "label": ["style"],
        "web": ["metadata"],
    }

    def block(self, r, typ, depth=0, comments=0.0, indent="  "):
        pad = indent * depth
        lines = [pad + typ.upper()]
        if typ in ("metadata", "validation"):
            for i in range(r.randint(1, 3)):
                lines.append(f'{pad}{indent}"key{i}" "{r.choice(self.STR)}"')
            lines.append(pad + "END")
            return lines
        props = self.props(typ)
        keys = [k for k, s in sorted(props.items()) if isinstance(s, dict) and not k.startswith("__")]
        r.shuffle(keys)
        used = 0
        items = []  # each statement (one line, or a whole nested block) is one item, so that the order can be mixed
        for k in keys:
            if used >= 5:
                break
            if k in ("include", "type") and typ == "map":
                continue
            if typ == "querymap" and k == "style":
                continue  # QUERYMAP STYLE <word> followed by another keyword does not parse (vocabulary drift, C19)
            v = self.simple_value(r, typ, k, props[k])
            if v is None:
                continue
            line = f"{pad}{indent}{k.upper()} {v}"
            if r.random() < comments:
                line += f" # c-{typ}-{k}"
            items.append([line])
            used += 1
        ex = self.EXTRAS.get(typ, [])
        if ex:
            seen = {it[0].split()[0].upper() for it in items if it[0].split()}
            for e in r.sample(ex, min(len(ex), r.choice([0, 1, 2, 3, 4, len(ex)]))):
                kw = e.split()[0]
                if kw in seen and kw not in ("PROCESSING", "CONFIG", "OUTPUTFORMAT", "SYMBOL", "FEATURE", "COMPOSITE"):
                    continue
                seen.add(kw)
                items.append([f"{pad}{indent}{part.strip()}" for part in e.split("\n")])
        if typ == "layer" and not any(it[0].strip().upper().startswith("TYPE ") for it in items):
            items.append([f"{pad}{indent}TYPE {r.choice(['POINT', 'LINE', 'POLYGON'])}"])
        if depth < 3:
            for c in self.CHILDREN.get(typ, []):
                reps = r.choice([0, 0, 1, 2]) if c in ("layer", "class", "style", "label") else r.choice([0, 0, 1])
                for _ in range(reps):
                    it = []
                    if r.random() < comments:
                        it.append(f"{pad}{indent}# about {c}")
                    it += self.block(r, c, depth + 1, comments, indent)
                    items.append(it)
        if r.random() < 0.2:
            # a hand-written file keeps no canonical order: blocks before scalars, CONFIG after PROJECTION, ...
            r.shuffle(items)
        for it in items:
            lines += it
        lines.append(pad + "END")
        return lines

    def document(self, r, root="map", comments=0.0, nl="\n"):
        return nl.join(self.block(r, root, 0, comments)) + nl


# ---------------------------------------------------------------- breakers

_TOKEN = re.compile(r'"[^"\n]*"|\'[^\'\n]*\'|#[^\n]*|\S+')


def break_text(r, text):
    """A syntactically damaged variant (most of the time a parse error)."""
    toks = list(_TOKEN.finditer(text))
    if len(toks) < 3:
        return text + " END END"
    kind = r.choice(["delete_end", "dup", "truncate", "garbage", "extra_end", "unterminated"])
    if kind == "delete_end":
        ends = [m for m in toks if m.group(0).upper() == "END"]
        if ends:
            m = r.choice(ends)
            return text[: m.start()] + text[m.end():]
    if kind == "dup":
        m = r.choice(toks)
        return text[: m.end()] + " " + m.group(0) + text[m.end():]
    if kind == "truncate":
        m = r.choice(toks[1:])
        return text[: m.start()]
    if kind == "garbage":
        m = r.choice(toks)
        return text[: m.start()] + " @@@ " + text[m.start():]
    if kind == "unterminated":
        m = r.choice(toks)
        return text[: m.start()] + ' "unterminated ' + text[m.start():]
    return text + "\nEND\n"
