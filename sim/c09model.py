"""
Reference model for C09 (version-aware validation). No repo code: reads the raw
JSON schema files, filters them by version at EVERY depth and in EVERY list,
and validates with jsonschema + a referencing.Registry of the filtered files.
No expansion, no caching, no in-place edits.
"""

from __future__ import annotations

import copy
import json
import os
import re

import jsonschema
from referencing import Registry, Resource
from referencing.jsonschema import DRAFT4


class Model:
    def __init__(self, schemas_dir):
        self.dir = schemas_dir
        self.raw = {}
        for fn in sorted(os.listdir(schemas_dir)):
            if fn.endswith(".json"):
                with open(os.path.join(schemas_dir, fn), encoding="utf-8") as f:
                    self.raw[fn[:-5]] = json.load(f)
        self.entries = []
        for f, j in self.raw.items():
            self._find_entries(f, j, [])
        self._filtered = {}
        self._validators = {}
        self.object_types = sorted(f for f, j in self.raw.items() if isinstance(j, dict) and "properties" in j)
        self.edges = {f: self._edges(f) for f in self.object_types}

    # ---------------------------------------------------------------- annotated entries
    def _find_entries(self, f, node, ptr):
        if isinstance(node, dict):
            md = node.get("metadata")
            if isinstance(md, dict) and ("minVersion" in md or "maxVersion" in md):
                kind = "file" if not ptr else ("keyword" if len(ptr) == 2 and ptr[0] == "properties" else "alternative")
                self.entries.append({"file": f, "ptr": list(ptr), "kind": kind, "min": md.get("minVersion"), "max": md.get("maxVersion"),
                                     "id": f + ":" + "/".join(str(p) for p in ptr)})
            for k, v in node.items():
                if k != "metadata":
                    self._find_entries(f, v, ptr + [k])
        elif isinstance(node, list):
            for i, v in enumerate(node):
                self._find_entries(f, v, ptr + [i])

    @staticmethod
    def in_range(md, v):
        if not isinstance(md, dict):
            return True
        return md.get("minVersion", 0.0) <= v <= md.get("maxVersion", 1000.0)

    def excluded(self, node, v):
        if not isinstance(node, dict):
            return False
        if not self.in_range(node.get("metadata"), v):
            return True
        ref = node.get("$ref")
        if isinstance(ref, str) and ref.endswith(".json"):
            target = self.raw.get(ref[:-5])
            if isinstance(target, dict) and not self.in_range(target.get("metadata"), v):
                return True
        return False

    # ---------------------------------------------------------------- filtering
    def _emptied(self, node, v):
        """a sub-schema that only lists alternatives (allOf/oneOf/anyOf) all of which are excluded at v
        describes something that does not exist at v"""
        if not isinstance(node, dict):
            return False
        for k in ("allOf", "oneOf", "anyOf"):
            lst = node.get(k)
            if isinstance(lst, list) and lst and all(self.excluded(c, v) for c in lst):
                return True
        return False

    def _filter(self, node, v):
        if isinstance(node, dict):
            out = {}
            for k, c in node.items():
                if k != "metadata" and (self.excluded(c, v) or self._emptied(c, v)):
                    continue
                out[k] = self._filter(c, v)
            return out
        if isinstance(node, list):
            return [self._filter(c, v) for c in node if not self.excluded(c, v)]
        return node

    def filtered(self, name, v):
        key = (name, v)
        if key not in self._filtered:
            self._filtered[key] = copy.deepcopy(self.raw[name]) if v is None else self._filter(self.raw[name], v)
        return self._filtered[key]

    def validator(self, name, v):
        key = (name, v)
        if key not in self._validators:
            def retrieve(uri, v=v):
                n = uri[:-5] if uri.endswith(".json") else uri
                return Resource.from_contents(self.filtered(n, v), default_specification=DRAFT4)

            self._validators[key] = jsonschema.Draft4Validator(self.filtered(name, v), registry=Registry(retrieve=retrieve))
        return self._validators[key]

    # ---------------------------------------------------------------- verdicts
    @staticmethod
    def lower(x):
        if isinstance(x, list):
            return [Model.lower(i) for i in x]
        if isinstance(x, dict):
            return {k.lower(): Model.lower(i) for k, i in x.items()}
        if isinstance(x, str):
            return x.lower()
        return x

    def verdict(self, doc, name, v):
        """sorted list of offending keys (upper-case), the way mappyfile names them:
        root type for root-level errors, object type for errors on a list item, else the keyword."""
        if not v:
            v = None
        jsn = json.loads(json.dumps(self.lower(doc)))
        out = []
        for e in self.validator(name, v).iter_errors(jsn):
            path = list(e.absolute_path)
            if not path:
                key = jsn.get("__type__", "?") if isinstance(jsn, dict) else "?"
            elif isinstance(path[-1], int):
                x = jsn
                for p in path:
                    x = x[p]
                key = x.get("__type__", "?") if isinstance(x, dict) else "<inside-list-value>"
            else:
                key = path[-1]
            out.append(str(key).upper())
        return sorted(out)

    # ---------------------------------------------------------------- type graph
    def _refs_in(self, node, in_list=False, out=None):
        """($ref target, via-list?) reachable in a property's sub-schema without entering nested 'properties'"""
        if out is None:
            out = []
        if isinstance(node, dict):
            r = node.get("$ref")
            if isinstance(r, str) and r.endswith(".json"):
                out.append((r[:-5], in_list))
            for k, c in node.items():
                if k in ("properties", "metadata"):
                    continue
                self._refs_in(c, in_list or k == "items", out)
        elif isinstance(node, list):
            for c in node:
                self._refs_in(c, in_list, out)
        return out

    def _edges(self, f):
        out = []
        for p, sub in self.raw[f].get("properties", {}).items():
            for g, via_list in self._refs_in(sub):
                if g in self.raw and isinstance(self.raw[g], dict) and "properties" in self.raw[g]:
                    out.append((p, g, via_list))
        return out

    def chains(self, root, target, maxlen=4):
        """all property chains [(prop, type, via_list), ...] from root type to target type"""
        res = []

        def dfs(t, acc, seen):
            if t == target:
                res.append(list(acc))
            if len(acc) >= maxlen:
                return
            for p, g, vl in self.edges.get(t, []):
                if g in seen and g != target:
                    continue
                if len(res) > 40:
                    return
                dfs(g, acc + [(p, g, vl)], seen | {g})

        dfs(root, [], {root})
        # one chain per distinct (length, first property, last property) is plenty
        uniq = {}
        for c in res:
            k = (len(c), c[0][0] if c else None, c[-1][0] if c else None)
            uniq.setdefault(k, c)
        return list(uniq.values())

    # ---------------------------------------------------------------- value synthesis
    def synth(self, node, depth=0):
        """A value valid for this (raw) sub-schema, or raises ValueError."""
        if depth > 8:
            raise ValueError("too deep")
        if not isinstance(node, dict):
            raise ValueError("not a schema")
        if "$ref" in node:
            t = node["$ref"][:-5]
            tgt = self.raw[t]
            if isinstance(tgt, dict) and "properties" in tgt:
                return self.min_object(t)
            return self.synth(tgt, depth + 1)
        if "example" in node and "pattern" in node:
            return node["example"]
        if "enum" in node:
            for e in node["enum"]:
                return e
        for k in ("oneOf", "anyOf", "allOf"):
            if k in node and node[k]:
                last = None
                for alt in node[k]:
                    try:
                        return self.synth(alt, depth + 1)
                    except ValueError as e:
                        last = e
                raise ValueError(str(last))
        t = node.get("type")
        if t == "string":
            pat = node.get("pattern")
            if pat:
                return self.for_pattern(pat)
            return "text"
        if t == "integer":
            lo = node.get("minimum", 0)
            if node.get("exclusiveMinimum") is True:
                lo += 1
            if isinstance(node.get("exclusiveMinimum"), (int, float)) and not isinstance(node.get("exclusiveMinimum"), bool):
                lo = int(node["exclusiveMinimum"]) + 1
            return int(lo)
        if t == "number":
            lo = node.get("minimum", 0)
            return lo + (1 if node.get("exclusiveMinimum") else 0)
        if t == "boolean":
            return True
        if t == "array":
            items = node.get("items", {"type": "string"})
            n = max(node.get("minItems", 1), 1)
            if isinstance(items, list):
                return [self.synth(i, depth + 1) for i in items][: max(n, len(items))]
            return [self.synth(items, depth + 1) for _ in range(n)]
        if t == "object":
            return {}
        raise ValueError("no rule for " + json.dumps(node)[:80])

    @staticmethod
    def for_pattern(pat):
        cands = ["[attr]", "(1 = 1)", "/re/", "#aabbcc", '"#aabbcc"', "'#aabbcc'", "rectangle", "ellipse", "&#65;", "text"]
        for c in cands:
            if re.search(pat, c):
                return c
        raise ValueError("no candidate for pattern " + pat)

    def min_object(self, t):
        d = {"__type__": t}
        for req in self.raw[t].get("required", []):
            d[req] = self.synth(self.raw[t]["properties"][req])
        return d

    def doc_for(self, entry, root, chain):
        """Minimal document of root type `root` that uses `entry` inside the object reached by `chain`.
        -> (doc, note) or raises ValueError."""
        f = entry["file"]
        if entry["kind"] == "file":
            # the object type itself is the entry: chain ends AT the object of that type
            doc, _ = self._nest(root, chain, lambda obj: None)
            return doc
        prop = entry["ptr"][1]
        sub = self.raw[f]["properties"][prop]
        if entry["kind"] == "keyword":
            value = self.synth(sub)
        else:
            lst_key, idx = entry["ptr"][2], entry["ptr"][3]
            alt = sub[lst_key][idx]
            value = self.synth(alt)
            # (another alternative may admit the same value; the expected verdict comes from the filtered
            # schema as a whole, so that only weakens how decisive this entry's own bound is)

        def put(obj):
            obj[prop] = value

        doc, _ = self._nest(root, chain, put)
        return doc

    def _nest(self, root, chain, put):
        doc = self.min_object(root)
        obj = doc
        for p, g, via_list in chain:
            child = self.min_object(g)
            obj[p] = [child] if via_list else child
            obj = child
        put(obj)
        return doc, obj
