#!/venv/bin/python
"""Self-tests of the simulator: sensitivity (semantic mutants must be caught)
and determinism (same seed => same digests across processes / hash seeds).

  selftest.py sensitivity [C17 ...]     apply each mutant to a scratch copy of the
                                        repo under $VERIF_TMP, run the quick check
                                        with VERIF_REPO=<copy>, expect exit 1
  selftest.py determinism [C17 ...]     run N indices twice under two hash seeds
  selftest.py patch <check> <patch.diff> run one check against an arbitrary patch
"""
import json
import os
import shutil
import subprocess
import sys
import tempfile

VERIF = os.path.dirname(os.path.dirname(os.path.abspath(__file__)))
sys.path.insert(0, VERIF)
TMPBASE = os.environ.get("VERIF_TMP", "/dev/shm")
REPO = os.environ.get("VERIF_REPO", "/repo")
PY = sys.executable


def scratch_copy():
    d = tempfile.mkdtemp(prefix="verif-mut-", dir=TMPBASE)
    shutil.copytree(os.path.join(REPO, "mappyfile"), os.path.join(d, "mappyfile"),
                    ignore=shutil.ignore_patterns("__pycache__"))
    for sub in ("tests", "docs"):
        os.symlink(os.path.join(REPO, sub), os.path.join(d, sub))
    return d


def apply_edits(root, edits):
    for rel, old, new in edits:
        p = os.path.join(root, rel)
        s = open(p, encoding="utf-8").read()
        if s.count(old) < 1:
            raise SystemExit(f"mutant does not apply: {rel}: {old!r}")
        s = s.replace(old, new, 1)
        open(p, "w", encoding="utf-8").write(s)


def run_check(pid, root, tier="quick", extra_env=None, timeout=900):
    env = dict(os.environ)
    env.update({"VERIF_REPO": root, "VERIF_TIER": tier})
    env.pop("VERIF_BOOTSTRAPPED", None)
    if extra_env:
        env.update(extra_env)
    p = subprocess.run([PY, os.path.join(VERIF, "checks", pid.lower() + ".py")],
                       capture_output=True, text=True, env=env, timeout=timeout, cwd=VERIF)
    return p.returncode, p.stdout + p.stderr


def sensitivity(pids):
    from sim.mutants import MUTANTS

    results = []
    for pid in pids:
        for entry in MUTANTS.get(pid, []):
            name, edits = entry[0], entry[1]
            env_over = entry[2] if len(entry) > 2 else None
            root = scratch_copy()
            try:
                apply_edits(root, edits)
                rc, out = run_check(pid, root, extra_env=env_over, timeout=3000)
            finally:
                shutil.rmtree(root, ignore_errors=True)
            caught = rc == 1 and f"VIOLATION property={pid}" in out
            results.append((pid, name, caught, rc))
            line = [l for l in out.splitlines() if l.startswith("  invariant=")][:1]
            print(f"{pid} {name}: {'CAUGHT' if caught else 'MISSED rc=%d' % rc} {line[0].strip() if line else ''}")
            if not caught:
                print("    " + "\n    ".join(out.splitlines()[-6:]))
            sys.stdout.flush()
    missed = [r for r in results if not r[2]]
    print(f"sensitivity: {len(results) - len(missed)}/{len(results)} mutants caught")
    return 1 if missed else 0


def benign(pids):
    """Changes that keep the property: every check must exit 0 on them."""
    from sim.mutants import BENIGN

    bad = 0
    for pid in pids:
        for name, edits in BENIGN.get(pid, []):
            root = scratch_copy()
            try:
                apply_edits(root, edits)
                rc, out = run_check(pid, root)
            finally:
                shutil.rmtree(root, ignore_errors=True)
            print(f"{pid} {name}: {'QUIET' if rc == 0 else 'ALARM rc=%d' % rc}")
            if rc != 0:
                bad += 1
                print("    " + "\n    ".join(l[:300] for l in out.splitlines() if l.startswith(("VIOLATION", "  invariant", "HARNESS")))[:2000])
            sys.stdout.flush()
    return 1 if bad else 0


def patch(pid, patchfile, tier="quick"):
    root = tempfile.mkdtemp(prefix="verif-patch-", dir=TMPBASE)
    try:
        subprocess.run(["git", "-C", REPO, "worktree", "add", "--detach", os.path.join(root, "wt"), "HEAD"],
                       check=True, capture_output=True)
        wt = os.path.join(root, "wt")
        subprocess.run(["git", "-C", wt, "apply", os.path.abspath(patchfile)], check=True)
        rc, out = run_check(pid, wt, tier)
        keep = [l for l in out.splitlines() if l.startswith(("VIOLATION", "  invariant=", "KNOWN-FINDING", "HARNESS-ERROR", "VERIF_SEED"))
                or " quick:" in l or " thorough:" in l]
        print("\n".join(l[:400] for l in keep[:40]))
        if rc not in (0, 1):
            print(out[-2500:])
        print("exit", rc)
    finally:
        subprocess.run(["git", "-C", REPO, "worktree", "remove", "--force", os.path.join(root, "wt")], capture_output=True)
        shutil.rmtree(root, ignore_errors=True)
    return rc


def determinism(pids, n=int(os.environ.get("VERIF_DET_N", "40"))):
    """Each run index under (hashseed 0, hashseed 12345) x (two processes):
    all digests per index must agree."""
    bad = 0
    for pid in pids:
        outs = []
        for hs in ("0", "12345", "0"):
            env = dict(os.environ)
            env.update({"VERIF_HASHSEED": hs, "VERIF_DIGESTS": str(n)})
            env.pop("VERIF_BOOTSTRAPPED", None)
            env.pop("PYTHONHASHSEED", None)
            p = subprocess.run([PY, os.path.join(VERIF, "checks", pid.lower() + ".py"), "--digests", str(n)],
                               capture_output=True, text=True, env=env, cwd=VERIF, timeout=1800)
            lines = [l for l in p.stdout.splitlines() if l.startswith("DIGEST ")]
            outs.append(lines)
        ok = outs[0] == outs[1] == outs[2] and len(outs[0]) == n
        print(f"{pid}: determinism over {n} run indices x 3 processes x 2 hash seeds: {'OK' if ok else 'MISMATCH'}")
        if not ok:
            bad += 1
            for a, b, c in zip(*outs):
                if not (a == b == c):
                    print("   ", a, "|", b, "|", c)
                    break
    return 2 if bad else 0


if __name__ == "__main__":
    cmd = sys.argv[1]
    rest = sys.argv[2:]
    allp = ["C03", "C09", "C12", "C15", "C17", "C18", "C20"]
    if cmd == "sensitivity":
        sys.exit(sensitivity(rest or allp))
    if cmd == "benign":
        sys.exit(benign(rest or allp))
    if cmd == "determinism":
        sys.exit(determinism(rest or allp))
    if cmd == "patch":
        sys.exit(patch(rest[0], rest[1], rest[2] if len(rest) > 2 else "quick"))
