"""Picklable default factories used by the dict-API history machine.

`flaky_factory` is the fault seam of C17: the harness sets FAULT["raise"] for
the duration of exactly one operation, so "the factory fails on this call" is a
decision of the operation sequence (replayable), not of a counter hidden in an
object that copy/deepcopy/pickle may or may not share.
"""

FAULT = {"raise": False, "calls": 0}


class InjectedFactoryFault(RuntimeError):
    pass


def flaky_factory():
    FAULT["calls"] += 1
    if FAULT["raise"]:
        raise InjectedFactoryFault("injected default_factory failure")
    from mappyfile.ordereddict import CaseInsensitiveOrderedDict

    return CaseInsensitiveOrderedDict()
