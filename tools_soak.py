#!/venv/bin/python
"""No-alarm soak: every registered check's quick (or thorough) command under many VERIF_SEED values.
   tools_soak.py [tier] [first_seed] [n_seeds] [ids...]   -> one line per (check, seed); exit 1 if any run is not exit 0"""
import json, os, subprocess, sys, time
HERE = os.path.dirname(os.path.abspath(__file__))
tier = sys.argv[1] if len(sys.argv) > 1 else "quick"
first = int(sys.argv[2]) if len(sys.argv) > 2 else 1
n = int(sys.argv[3]) if len(sys.argv) > 3 else 20
ids = sys.argv[4:]
m = json.load(open(os.path.join(HERE, "MANIFEST.json")))
bad = 0
for seed in range(first, first + n):
    for c in m["checks"]:
        if ids and c["property_id"] not in ids:
            continue
        cmd = c["quick_cmd"] if tier == "quick" else c["thorough_cmd"]
        env = dict(os.environ, VERIF_SEED=str(seed), VERIF_TIER=tier)
        env.pop("VERIF_BOOTSTRAPPED", None)
        t = time.time()
        p = subprocess.run(cmd, shell=True, cwd=HERE, capture_output=True, text=True, env=env)
        last = [l for l in p.stdout.splitlines() if f" {tier}:" in l][-1:] or [p.stdout[-200:]]
        print(f"seed={seed} {c['property_id']} exit={p.returncode} {time.time()-t:.0f}s :: {last[0][:220]}")
        if p.returncode != 0:
            bad += 1
            print("\n".join(l[:400] for l in p.stdout.splitlines() if l.startswith(("VIOLATION", "  invariant", "HARNESS"))) [:3000])
        sys.stdout.flush()
print("soak finished, non-zero exits:", bad)
sys.exit(1 if bad else 0)
